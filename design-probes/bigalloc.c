#include <stddef.h>
#include <stdint.h>
#include <assert.h>
void *__CPROVER_allocate(__CPROVER_size_t size, __CPROVER_bool zero);
#define CAP (8u * 1048576u)
void *malloc(size_t n) {
  void *p = 0;
#define C(k) else if (n == (k)) p = __CPROVER_allocate((k), 0);
  if (0) {}
  C(0) C(1) C(2) C(3) C(4) C(5) C(6) C(7) C(8) C(9) C(10) C(11) C(12) C(16) C(24) C(32) C(40) C(48) C(56) C(64)
  else { assert(n <= CAP); p = __CPROVER_allocate(128, 0); }
  return p;
}
void free(void *p) { (void)p; }
