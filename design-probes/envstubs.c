#include <stddef.h>
#include <stdint.h>
/* qsort stub: insertion sort driving the caller's comparator (contract: sorted permutation) */
void qsort(void *base, size_t n, size_t sz, int (*cmp)(const void *, const void *)) {
  unsigned char *b = base;
  for (size_t i = 1; i < n; i++)
    for (size_t j = i; j > 0 && cmp(b + (j - 1) * sz, b + j * sz) > 0; j--)
      for (size_t k = 0; k < sz; k++) { unsigned char t = b[(j - 1) * sz + k]; b[(j - 1) * sz + k] = b[j * sz + k]; b[j * sz + k] = t; }
}
