#include <assert.h>
#include <stdint.h>
#include <stdlib.h>
#include "varintAdaptive.h"
uint64_t nondet_u64(void);
#ifndef N
#define N 2
#endif
void harness(void) {
  uint64_t v[N], out[N]; for (int i = 0; i < N; i++) v[i] = nondet_u64();
  uint8_t buf[64 + 9 * N];
  varintAdaptiveMeta meta;
  size_t w = varintAdaptiveEncode(buf, v, N, &meta);
  __CPROVER_assume(w != 0);
  assert(buf[0] == (uint8_t)meta.encodingType);
  assert(w <= varintAdaptiveMaxSize(N));
  size_t d = varintAdaptiveDecode(buf, out, N, 0);
  assert(d == N); for (int i = 0; i < N; i++) assert(out[i] == v[i]);
}
