#include <assert.h>
#include <stdint.h>
#include <stdlib.h>
#include "varintBitmap.h"
unsigned nondet_u(void); uint16_t nondet_u16(void); uint8_t nondet_u8(void); _Bool nondet_b(void);
#define U VARINT_BITMAP_MAX_VALUE
uint32_t ghost; unsigned calls;
/* contract of varintBitmapAdd, as proved by its own one-step queries: abstract value gains v, result = "was absent" */
bool contract_add(varintBitmap *vb, uint16_t v) { (void)vb; assert(v < U); calls++; bool was = (ghost >> v) & 1; ghost |= 1u << v; return !was; }
static uint32_t abs_of(const varintBitmap *vb) {
  uint32_t m = 0;
  if (vb->type == VARINT_BITMAP_ARRAY) { for (unsigned i = 0; i < VARINT_BITMAP_ARRAY_MAX; i++) if (i < vb->cardinality) m |= 1u << vb->container.array.values[i]; }
  else if (vb->type == VARINT_BITMAP_BITMAP) { for (unsigned i = 0; i < VARINT_BITMAP_BITMAP_SIZE; i++) m |= (uint32_t)vb->container.bitmap.bits[i] << (8 * i); }
  else { for (unsigned i = 0; i < 2; i++) if (i < vb->container.runs.numRuns) for (unsigned j = 0; j < U; j++) if (j >= vb->container.runs.runs[2*i] && j < (unsigned)vb->container.runs.runs[2*i] + vb->container.runs.runs[2*i+1]) m |= 1u << j; }
  return m;
}
void harness(void) {
  varintBitmap *vb = malloc(sizeof *vb); __CPROVER_assume(vb);
  uint16_t *v = malloc(2 * sizeof(uint16_t)); __CPROVER_assume(v);
  v[0] = nondet_u16(); v[1] = nondet_u16(); __CPROVER_assume(v[0] < v[1] && v[1] < U);
  vb->type = VARINT_BITMAP_ARRAY; vb->cardinality = CARD; vb->container.array.values = v; vb->container.array.capacity = 2;
  uint32_t before = abs_of(vb); ghost = before; calls = 0;
  uint16_t a = nondet_u16(), b = nondet_u16(); __CPROVER_assume(a < U && b <= U);
  varintBitmapAddRange(vb, a, b);
  uint32_t want = before; for (unsigned i = 0; i < U; i++) if (i >= a && i < b) want |= 1u << i;
  if (calls) assert(ghost == want); else assert(abs_of(vb) == want);
}
