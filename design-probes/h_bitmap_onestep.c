#include <assert.h>
#include <stdint.h>
#include <stdlib.h>
#include "varintBitmap.h"
unsigned nondet_u(void); uint16_t nondet_u16(void); uint8_t nondet_u8(void);
#define U VARINT_BITMAP_MAX_VALUE
static unsigned popc(uint32_t m) { unsigned c = 0; for (int i = 0; i < U; i++) c += (m >> i) & 1; return c; }
/* arbitrary well-formed state + its abstract value */
static varintBitmap *mk(uint32_t *abs) {
  varintBitmap *vb = malloc(sizeof *vb); __CPROVER_assume(vb);
  unsigned t = T;
  uint32_t m = 0;
  if (t == 0) {
    const unsigned card = CARD;
    const unsigned cap = CAP;
    uint16_t *v = malloc(cap * sizeof(uint16_t)); __CPROVER_assume(v);
    for (unsigned i = 0; i < VARINT_BITMAP_ARRAY_MAX; i++) if (i < card) { v[i] = nondet_u16(); __CPROVER_assume(v[i] < U); if (i) __CPROVER_assume(v[i] > v[i-1]); m |= 1u << v[i]; }
    vb->type = VARINT_BITMAP_ARRAY; vb->cardinality = card; vb->container.array.values = v; vb->container.array.capacity = cap;
  } else if (t == 1) {
    uint8_t *bits = malloc(VARINT_BITMAP_BITMAP_SIZE); __CPROVER_assume(bits);
    for (unsigned i = 0; i < VARINT_BITMAP_BITMAP_SIZE; i++) { bits[i] = nondet_u8(); m |= (uint32_t)bits[i] << (8 * i); }
    vb->type = VARINT_BITMAP_BITMAP; vb->cardinality = popc(m); vb->container.bitmap.bits = bits;
  } else {
    unsigned nr = nondet_u(); __CPROVER_assume(nr <= 2);
    uint16_t *r = malloc(2 * 2 * sizeof(uint16_t)); __CPROVER_assume(r);
    unsigned end = 0, card = 0;
    for (unsigned i = 0; i < 2; i++) if (i < nr) { uint16_t s = nondet_u16(), l = nondet_u16(); __CPROVER_assume(l >= 1 && s >= end && (unsigned)s + l <= U); if (i) __CPROVER_assume(s > end); r[2*i] = s; r[2*i+1] = l; end = s + l; card += l; for (unsigned j = 0; j < U; j++) if (j >= s && j < (unsigned)s + l) m |= 1u << j; }
    vb->type = VARINT_BITMAP_RUNS; vb->cardinality = card; vb->container.runs.runs = r; vb->container.runs.numRuns = nr; vb->container.runs.capacity = 2;
  }
  *abs = m; return vb;
}
void harness(void) {
  uint32_t ref; varintBitmap *vb = mk(&ref);
  unsigned op = nondet_u(); __CPROVER_assume(op == OP);
  uint16_t a = nondet_u16(), b = nondet_u16(); __CPROVER_assume(a < U && b <= U);
  if (op == 0) { bool r = varintBitmapAdd(vb, a); assert(r == !((ref >> a) & 1)); ref |= 1u << a; }
  else if (op == 1) { bool r = varintBitmapRemove(vb, a); assert(r == ((ref >> a) & 1)); ref &= ~(1u << a); }
  else if (op == 2) { varintBitmapAddRange(vb, a, b); for (unsigned i = 0; i < U; i++) if (i >= a && i < b) ref |= 1u << i; }
  else if (op == 3) { varintBitmapRemoveRange(vb, a, b); for (unsigned i = 0; i < U; i++) if (i >= a && i < b) ref &= ~(1u << i); }
  else { varintBitmapClear(vb); ref = 0; }
  uint16_t x = nondet_u16(); __CPROVER_assume(x < U);
  assert(varintBitmapContains(vb, x) == ((ref >> x) & 1));
  assert(varintBitmapCardinality(vb) == popc(ref));
}
