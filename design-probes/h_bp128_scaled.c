#include <assert.h>
#include <stdint.h>
#include "varintBP128.h"
uint32_t nondet_u32(void);
#ifndef N
#define N 5
#endif
void harness(void) {
  uint32_t v[N], out[N]; for (int i = 0; i < N; i++) v[i] = nondet_u32();
#ifdef BW
  for (int i = 0; i < N; i++) __CPROVER_assume((v[i] >> BW) == 0);
  __CPROVER_assume((v[0] >> (BW - 1)) == 1 && (v[N-1] >> (BW - 1)) == 1);
#endif
  uint8_t buf[(N / 4) * (1 + 16) + 2 + (N % 4) * 4 + 1];
  varintBP128Meta meta;
  size_t w = varintBP128Encode32(buf, v, N, &meta);
  assert(w <= sizeof(buf) - 1);
  assert(meta.count == N && meta.encodedBytes == w && meta.blockCount == (N + 3) / 4 && meta.lastBlockSize == (N % 4 ? N % 4 : 4));
  size_t d = varintBP128Decode32(buf, out, N);
  assert(d == N); for (int i = 0; i < N; i++) assert(out[i] == v[i]);
}
