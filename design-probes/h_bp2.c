#include <assert.h>
#include <stdint.h>
#include "varintBP128.h"
uint64_t nondet_u64(void);
#ifndef N
#define N 2
#endif
void harness(void) {
  uint64_t v[N], out[N]; for (int i = 0; i < N; i++) v[i] = nondet_u64();
  #ifdef BW
 { uint64_t m = 0; for (int i = 0; i < N; i++) m |= v[i]; __CPROVER_assume(BW == 64 ? (m >> 63) == 1 : (m >> BW) == 0 && (BW == 0 || (m >> (BW - 1)) == 1)); }
#endif
  uint8_t buf[9 + 2 + 8 * N + 2]; size_t max = varintBP128MaxBytes(N);
  varintBP128Meta meta;
  size_t w = varintBP128Encode64(buf, v, N, &meta);
  assert(w <= max);
  size_t d = varintBP128Decode64(buf, out, N);
  assert(d == N); for (int i = 0; i < N; i++) assert(out[i] == v[i]);
}
