#include <assert.h>
#include <stdint.h>
#include <stdlib.h>
#include "varintDict.h"
uint64_t nondet_u64(void);
#ifndef N
#define N 3
#endif
void harness(void) {
  uint64_t v[N], out[N]; for (int i = 0; i < N; i++) v[i] = nondet_u64();
  uint8_t buf[1 + 9 * N + 1 + N + 1];
  size_t pred = varintDictEncodedSize(v, N);
  __CPROVER_assume(pred != 0);
  assert(pred <= sizeof(buf) - 1); buf[pred] = 0x5A;
  size_t w = varintDictEncode(buf, v, N);
  __CPROVER_assume(w != 0);
  assert(w == pred && buf[pred] == 0x5A);
  size_t d = varintDictDecodeInto(buf, w, out, N);
  assert(d == N); for (int i = 0; i < N; i++) assert(out[i] == v[i]);
}
