#include <assert.h>
#include <stdint.h>
#include <stdlib.h>
#include "varintDict.h"
uint64_t nondet_u64(void); unsigned nondet_u(void);
extern unsigned vf_alloc_calls, vf_fail_at, vf_live;
#define N 2
void harness(void) {
  uint64_t v[N], out[N]; for (int i = 0; i < N; i++) v[i] = nondet_u64();
  uint8_t buf[1 + 9 * N + 1 + N + 1];
  vf_fail_at = nondet_u(); __CPROVER_assume(vf_fail_at <= 6);
  size_t w = varintDictEncode(buf, v, N);
  assert(vf_live == 0);                         /* no leak, whatever failed */
  if (w != 0) {                                  /* success claimed => must decode to the input */
    vf_fail_at = 0;
    size_t d = varintDictDecodeInto(buf, w, out, N);
    assert(d == N); for (int i = 0; i < N; i++) assert(out[i] == v[i]);
  } else assert(vf_fail_at >= 1 && vf_fail_at <= vf_alloc_calls); /* failure only if an allocation really failed */
}
