#include <assert.h>
#include <stdint.h>
#include "varintDimension.h"
uint64_t nondet_u64(void); unsigned nondet_u(void); uint8_t nondet_u8(void);
#define ROWS 3
#define COLS 5
void harness(void) {
  /* header round trip over all width pairs */
  size_t r = nondet_u64(), c = nondet_u64(); __CPROVER_assume(c >= 1);
  uint8_t hdr[18]; for (int i = 0; i < 18; i++) hdr[i] = 0xA5;
  varintDimensionPair d = varintDimensionPairEncode(hdr + 1, r, c);
  unsigned wr = VARINT_DIMENSION_PAIR_WIDTH_ROW_COUNT(d), wc = VARINT_DIMENSION_PAIR_WIDTH_COL_COUNT(d);
  assert(wr <= 8 && wc >= 1 && wc <= 8);
  assert(hdr[0] == 0xA5 && hdr[1 + wr + wc] == 0xA5);
  assert(wr == 0 ? r == 0 : varintExternalGet(hdr + 1, wr) == r);
  assert(varintExternalGet(hdr + 1 + wr, wc) == c);
  /* cell independence on a ROWS x COLS matrix of W-byte entries */
  unsigned W = nondet_u(); __CPROVER_assume(W >= 1 && W <= 8);
  uint8_t m[2 + ROWS * COLS * 8 + 1], m0[sizeof m];
  for (unsigned i = 0; i < sizeof m; i++) { m[i] = nondet_u8(); }
  varintDimensionPair dd = varintDimensionPairEncode(m, ROWS, COLS);
  for (unsigned i = 0; i < sizeof m; i++) m0[i] = m[i];
  unsigned rr = nondet_u(), cc = nondet_u(); __CPROVER_assume(rr < ROWS && cc < COLS);
  uint64_t val = nondet_u64(); if (W < 8) val &= (1ULL << (8 * W)) - 1;
  varintDimensionPairEntrySetUnsigned(m, rr, cc, val, W, dd);
  assert(varintDimensionPairEntryGetUnsigned(m, rr, cc, W, dd) == val);
  unsigned off = 2 + (rr * COLS + cc) * W;
  for (unsigned i = 0; i < sizeof m; i++) if (i < off || i >= off + W) assert(m[i] == m0[i]);
}
