#include <assert.h>
#include <stdint.h>
#include "varintElias.h"
uint64_t nondet_u64(void);
#ifndef N
#define N 2
#endif
void harness(void) {
  uint64_t v[N], out[N]; for (int i = 0; i < N; i++) { v[i] = nondet_u64(); __CPROVER_assume(v[i] >= 1);
#ifdef LG
 __CPROVER_assume((v[i] >> LG) == 1);
#endif
 }
  uint8_t buf[(N * 127 + 7) / 8 + 1]; size_t max =
#ifdef DELTA
    varintEliasDeltaMaxBytes(N);
#else
    varintEliasGammaMaxBytes(N);
#endif
  buf[max] = 0x5A; varintEliasMeta meta;
#ifdef DELTA
  size_t w = varintEliasDeltaEncodeArray(buf, v, N, &meta);
  size_t d = varintEliasDeltaDecodeArray(buf, meta.totalBits, out, N);
#else
  size_t w = varintEliasGammaEncodeArray(buf, v, N, &meta);
  size_t d = varintEliasGammaDecodeArray(buf, meta.totalBits, out, N);
#endif
  assert(w <= max && buf[max] == 0x5A && meta.encodedBytes == w && meta.count == N && w == (meta.totalBits + 7) / 8);
  assert(d == N); for (int i = 0; i < N; i++) assert(out[i] == v[i]);
}
