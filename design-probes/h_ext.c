#include <assert.h>
#include <stdint.h>
#include <string.h>
#include "varintExternal.h"
uint64_t nondet_u64(void); unsigned nondet_u(void);
void harness(void) {
  uint64_t v = nondet_u64();
  uint8_t buf[10];
  for (int i = 0; i < 10; i++) buf[i] = 0xA5;
  varintWidth w = varintExternalPut(buf + 1, v);
  assert(w >= 1 && w <= 8);
  for (unsigned i = 0; i < 8; i++) { if (i < w) assert(buf[1 + i] == (uint8_t)(v >> (8 * i))); else assert(buf[1 + i] == 0xA5); }
  assert(w == 8 || (v >> (8 * w)) == 0);
  assert(w == 1 || (v >> (8 * (w - 1))) != 0);
  assert(buf[0] == 0xA5 && buf[9] == 0xA5);
  assert(varintExternalGet(buf + 1, w) == v);
  unsigned fw = nondet_u(); __CPROVER_assume(fw >= w && fw <= 8);
  uint8_t b2[10]; for (int i = 0; i < 10; i++) b2[i] = 0xA5;
  varintExternalPutFixedWidth(b2 + 1, v, fw);
  assert(varintExternalGet(b2 + 1, fw) == v);
  uint64_t q; varintExternalGetQuick_(b2 + 1, fw, q); assert(q == v);
  for (unsigned i = 0; i < 8; i++) { if (i >= fw) assert(b2[1 + i] == 0xA5); }
}
