#include <assert.h>
#include <stdint.h>
#include <string.h>
#include "varintFloat.h"
uint64_t nondet_u64(void);
#ifndef N
#define N 2
#endif
static uint64_t bits(double d) { uint64_t u; memcpy(&u, &d, 8); return u; }
static double frombits(uint64_t u) { double d; memcpy(&d, &u, 8); return d; }
void harness(void) {
  double in[N], out[N]; uint64_t ib[N];
  for (int i = 0; i < N; i++) { ib[i] = nondet_u64(); in[i] = frombits(ib[i]); }
  uint8_t buf[4 + 2 * ((N + 7) / 8) + 9 * N + (52 * N + 7) / 8 + 8 * N + 1];
  size_t max = varintFloatMaxEncodedSize(N, PREC);
  assert(max <= sizeof(buf) - 1);
  buf[max] = 0x5A;
  size_t w = varintFloatEncode(buf, in, N, PREC, MODE);
  __CPROVER_assume(w != 0); /* allocation failure out of scope here */
  assert(w <= max); assert(buf[max] == 0x5A);
  size_t r = varintFloatDecode(buf, N, out);
  __CPROVER_assume(r != 0);
  assert(r == w);
  for (int i = 0; i < N; i++) {
    uint64_t ob = bits(out[i]);
#if PREC == 0
    assert(ob == ib[i]);
#else
    uint64_t e = (ib[i] >> 52) & 0x7ff, m = ib[i] & 0xFFFFFFFFFFFFFULL;
    if (e == 0 || e == 0x7ff) { assert(ob == ib[i]); }
    else {
      /* |x' - x| <= 2^-k * |x| in exact integer arithmetic on (exponent, 53-bit mantissa) */
      unsigned k = varintFloatPrecisionMantissaBits(PREC);
      uint64_t e2 = (ob >> 52) & 0x7ff, m2 = ob & 0xFFFFFFFFFFFFFULL;
      assert((ob >> 63) == (ib[i] >> 63));
      if (e2 == 0x7ff) { assert(m2 == 0 && e == 0x7fe); }
      else {
        assert(e2 == e || e2 == e + 1);
        __uint128_t M = (__uint128_t)(m | (1ULL << 52)), M2 = (__uint128_t)(m2 | (1ULL << 52));
        if (e2 == e + 1) M2 <<= 1;
        __uint128_t diff = M2 > M ? M2 - M : M - M2;
        assert((diff << k) <= M);
      }
    }
#endif
  }
}
