#include <assert.h>
#include <stdint.h>
#include <string.h>
#include "varintFOR.h"
uint64_t nondet_u64(void); unsigned nondet_u(void);
#ifndef N
#define N 3
#endif
void harness(void) {
  uint64_t v[N], out[N];
  unsigned n = nondet_u(); __CPROVER_assume(n >= 1 && n <= N);
  for (unsigned i = 0; i < N; i++) v[i] = nondet_u64();
  uint8_t buf[9 + 1 + 9 + 8 * N + 1];
  varintFORMeta meta; meta.count = 0;
  varintFORAnalyze(v, n, &meta);
  __CPROVER_assume(meta.offsetWidth == W);
  __CPROVER_assume(varintTaggedLen(meta.minValue) == MW);
  size_t predicted = varintFORSize(&meta);
  __CPROVER_assume(predicted <= sizeof(buf) - 1);
  buf[predicted] = 0x5A;
  size_t w = varintFOREncode(buf, v, n, NULL);
  assert(w == predicted);
  assert(buf[predicted] == 0x5A);
  size_t got = varintFORDecode(buf, out, n);
  assert(got == n);
  for (unsigned i = 0; i < N; i++) if (i < n) { assert(out[i] == v[i]); }
  unsigned k = nondet_u(); __CPROVER_assume(k < n);
  assert(varintFORGetAt(buf, k) == v[k]);
  assert(varintFORGetCount(buf) == n);
#ifdef WITNESS
  assert(0);
#endif
}
