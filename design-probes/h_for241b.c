#include <assert.h>
#include <stdint.h>
#include "varintFOR.h"
uint64_t nondet_u64(void); unsigned nondet_u(void);
#ifndef NN
#define NN 241
#endif
/* semi-concrete: NN elements, all literal except two symbolic ones; min and width pinned by construction:
   element 0 is the literal minimum BASE, element 1 the literal BASE+SPAN, symbolic ones lie in [BASE, BASE+SPAN] */
#define BASE 1000ULL
#define SPAN 70000ULL   /* width class 3 */
void harness(void) {
  static uint64_t v[NN]; static uint64_t out[NN];
  for (unsigned i = 0; i < NN; i++) v[i] = BASE + (i * 37u) % SPAN;
  v[0] = BASE; v[1] = BASE + SPAN;
  uint64_t a = nondet_u64(), b = nondet_u64();
  __CPROVER_assume(a >= BASE && a <= BASE + SPAN && b >= BASE && b <= BASE + SPAN);
  v[NN / 2] = a; v[NN - 1] = b;
  static uint8_t buf[2 + 1 + 2 + 3 * NN + 1];
  varintFORMeta meta; meta.minValue = BASE; meta.maxValue = BASE + SPAN; meta.range = SPAN; meta.offsetWidth = 3; meta.count = NN; meta.encodedSize = 0;
  size_t pred = varintFORSize(&meta);
  assert(pred == sizeof(buf) - 1 || NN <= 240);
  size_t w = varintFOREncode(buf, v, NN, &meta);
  assert(w == pred);
  size_t d = varintFORDecode(buf, out, NN);
  assert(d == NN);
  assert(out[NN / 2] == a && out[NN - 1] == b && out[0] == BASE && out[1] == BASE + SPAN && out[7] == v[7]);
  assert(varintFORGetAt(buf, NN - 1) == b);
  assert(varintFORGetCount(buf) == NN);
}
