#include <assert.h>
#include <stdint.h>
#include <string.h>
#include "varintTagged.h"
uint64_t nondet_u64(void);
static int cmpbytes(const uint8_t *a, const uint8_t *b, unsigned n) {
  for (unsigned i = 0; i < n; i++) { if (a[i] != b[i]) return a[i] < b[i] ? -1 : 1; }
  return 0;
}
void harness(void) {
  uint64_t a = nondet_u64(), b = nondet_u64(), c = nondet_u64(), d = nondet_u64();
  uint8_t ka[18], kb[18];
  for (int i = 0; i < 18; i++) { ka[i] = 0; kb[i] = 0; }
  unsigned la = varintTaggedPut64(ka, a); la += varintTaggedPut64(ka + la, c);
  unsigned lb = varintTaggedPut64(kb, b); lb += varintTaggedPut64(kb + lb, d);
  unsigned m = la < lb ? la : lb;
  int r = cmpbytes(ka, kb, m);
  if (r == 0) r = (la < lb) ? -1 : (la > lb) ? 1 : 0;
  int want = a < b ? -1 : a > b ? 1 : (c < d ? -1 : c > d ? 1 : 0);
  assert(r == want);
#ifdef WITNESS
  assert(0);
#endif
}
