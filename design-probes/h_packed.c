#include <assert.h>
#include <stdint.h>
#define PACK_STORAGE_BITS BITS
#define PACK_STORAGE_SLOT_STORAGE_TYPE SLOT
#define PACK_FUNCTION_PREFIX pk
#define PACK_STATIC
#include "varintPacked.h"
#define CAT(a,b) a##b
#define NAME(a,b,c) CAT3(a,b,c)
#define CAT3(a,b,c) a##b##c
#define SETF NAME(pk,BITS,Set)
#define GETF NAME(pk,BITS,Get)
uint64_t nondet_u64(void); unsigned nondet_u(void);
#define NEL 9
void harness(void) {
  enum { SLOTS = (NEL * BITS + 8 * sizeof(SLOT) - 1) / (8 * sizeof(SLOT)) };
  SLOT a[SLOTS + 2], b[SLOTS + 2];
  for (unsigned i = 0; i < SLOTS + 2; i++) { a[i] = (SLOT)nondet_u64(); b[i] = a[i]; }
  unsigned i = nondet_u(); __CPROVER_assume(i < NEL);
  uint64_t val = nondet_u64() & ((1ULL << BITS) - 1);
  SETF(a + 1, i, val);
  assert(GETF(a + 1, i) == val);
  unsigned j = nondet_u(); __CPROVER_assume(j < NEL && j != i);
  assert(GETF(a + 1, j) == GETF(b + 1, j));
  assert(a[0] == b[0] && a[SLOTS + 1] == b[SLOTS + 1]);
  /* bits beyond the array inside the last slot unchanged: compare every bit outside element i */
  for (unsigned s = 0; s < SLOTS; s++) for (unsigned bit = 0; bit < 8 * sizeof(SLOT); bit++) {
    unsigned pos = s * 8 * sizeof(SLOT) + bit;
    if (pos < i * BITS || pos >= (i + 1) * BITS) assert(((a[1 + s] >> bit) & 1) == ((b[1 + s] >> bit) & 1));
  }
}
