#include <assert.h>
#include <stdint.h>
#include <stdlib.h>
#include "varintPFOR.h"
uint64_t nondet_u64(void);
#ifndef N
#define N 3
#endif
void harness(void) {
  uint64_t v[N], out[N]; for (int i = 0; i < N; i++) v[i] = nondet_u64();
  uint8_t buf[9 + 1 + 1 + 8 * N + 1 + 10 * N + 8];
  varintPFORMeta m; 
  size_t w = varintPFOREncode(buf, v, N, 95, &m);
  assert(w <= varintPFORSize(&m));
  varintPFORMeta dm; dm.width = 0;
  size_t d = varintPFORDecode(buf, out, &dm);
  assert(d == N); for (int i = 0; i < N; i++) assert(out[i] == v[i]);
}
