#include <assert.h>
#include <stdint.h>
#include "varintAdaptive.h"
uint64_t nondet_u64(void); unsigned nondet_u(void); _Bool nondet_b(void);
void harness(void) {
  varintAdaptiveDataStats s;
  s.count = nondet_u64(); s.minValue = nondet_u64(); s.maxValue = nondet_u64(); s.uniqueCount = nondet_u64();
  s.avgDelta = nondet_u64(); s.maxDelta = nondet_u64(); s.outlierCount = nondet_u64();
  s.isSorted = nondet_b(); s.isReverseSorted = nondet_b();
  /* consistency constraints every Analyze() result satisfies */
  __CPROVER_assume(s.count >= 2 && s.count <= (1ULL << 32));
  __CPROVER_assume(s.minValue <= s.maxValue); s.range = s.maxValue - s.minValue;
  __CPROVER_assume(s.uniqueCount >= 1 && s.uniqueCount <= s.count && s.outlierCount <= s.count);
  s.fitsInBitmapRange = s.maxValue < 65536;
  s.uniqueRatio = (float)s.uniqueCount / (float)s.count;
  s.outlierRatio = s.range > 0 ? (float)s.outlierCount / (float)s.count : 0.0f;
  varintAdaptiveEncodingType t = varintAdaptiveSelectEncoding(&s);
  /* domain of the set-based bitmap: strictly increasing, duplicate-free */
  if (t == VARINT_ADAPTIVE_BITMAP) { assert(s.isSorted); assert(s.uniqueCount == s.count); }
}
