#include <assert.h>
#include <stdint.h>
#include <string.h>
#include "varintTagged.h"
uint64_t nondet_u64(void);
/* reference encoder written from the sqlite4 format text */
static unsigned ref_tagged(uint8_t *o, uint64_t v) {
  if (v <= 240) { o[0] = (uint8_t)v; return 1; }
  if (v <= 2287) { o[0] = (uint8_t)((v - 240) / 256 + 241); o[1] = (uint8_t)((v - 240) % 256); return 2; }
  if (v <= 67823) { o[0] = 249; o[1] = (uint8_t)((v - 2288) / 256); o[2] = (uint8_t)((v - 2288) % 256); return 3; }
  unsigned n = 3; while (n < 8 && (v >> (8 * n)) != 0) n++;
  o[0] = (uint8_t)(247 + n);
  for (unsigned i = 0; i < n; i++) o[1 + i] = (uint8_t)(v >> (8 * (n - 1 - i)));
  return n + 1;
}
void harness(void) {
  uint64_t v = nondet_u64();
  uint8_t buf[11]; uint8_t ref[9];
  for (int i = 0; i < 11; i++) buf[i] = 0xA5;
  unsigned n = varintTaggedPut64(buf + 1, v);
  unsigned r = ref_tagged(ref, v);
  assert(n == r);
  assert(n >= 1 && n <= 9);
  for (unsigned i = 0; i < 9; i++) if (i < n) assert(buf[1 + i] == ref[i]); else assert(buf[1+i] == 0xA5);
  assert(buf[0] == 0xA5 && buf[10] == 0xA5);
  uint64_t out = 0;
  unsigned g = varintTaggedGet64(buf + 1, &out);
  assert(g == n && out == v);
  assert(varintTaggedLen(v) == n);
  assert(varintTaggedGetLen(buf + 1) == n);
  assert(varintTaggedLenQuick(v) == n);
  assert(varintTaggedGetLenQuick_(buf+1) == n);
  assert(varintTaggedGet64Quick_(buf+1) == v);
#ifdef WITNESS
  assert(0);
#endif
}
