#include <assert.h>
#include <stdint.h>
#include <pthread.h>
#include "varintTagged.h"
uint64_t nondet_u64(void);
uint64_t shared_in;          /* shared read-only input */
uint8_t out1[9], out2[9];    /* private outputs */
unsigned n1, n2;
#ifdef MUTANT
static uint8_t scratch[9];   /* a realistic 'optimisation': static scratch buffer */
varintWidth put_via_scratch(uint8_t *dst, uint64_t v) { varintWidth w = varintTaggedPut64(scratch, v); for (unsigned i = 0; i < w; i++) dst[i] = scratch[i]; return w; }
#define PUT put_via_scratch
#else
#define PUT varintTaggedPut64
#endif
void *t1(void *a) { n1 = PUT(out1, shared_in); return 0; }
void *t2(void *a) { n2 = PUT(out2, shared_in + 1); return 0; }
void harness(void) {
  shared_in = nondet_u64();
  __CPROVER_assume(shared_in != UINT64_MAX);
  uint8_t r1[9], r2[9];
  unsigned m1 = varintTaggedPut64(r1, shared_in), m2 = varintTaggedPut64(r2, shared_in + 1);
  pthread_t a, b;
  pthread_create(&a, 0, t1, 0); pthread_create(&b, 0, t2, 0);
  pthread_join(a, 0); pthread_join(b, 0);
  assert(n1 == m1 && n2 == m2);
  for (unsigned i = 0; i < 9; i++) { if (i < m1) assert(out1[i] == r1[i]); if (i < m2) assert(out2[i] == r2[i]); }
}
