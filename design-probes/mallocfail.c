#include <stddef.h>
#include <stdint.h>
#ifndef MAXALLOC
#define MAXALLOC 64
#endif
void *__CPROVER_allocate(__CPROVER_size_t size, __CPROVER_bool zero);
unsigned vf_alloc_calls, vf_fail_at, vf_live;   /* fail_at: symbolic index of the one failing allocation (0 = none) */
static void *alloc_exact(size_t n, int zero) {
  vf_alloc_calls++;
  if (vf_alloc_calls == vf_fail_at) return 0;
  void *p = 0;
#define C(k) else if (n == (k)) p = __CPROVER_allocate((k), zero);
  if (0) {}
  C(0) C(2) C(4) C(6) C(8) C(10) C(12) C(16) C(24) C(32) C(40) C(48) C(56) C(64) C(128)
  else __CPROVER_assume(0);
  vf_live++;
  return p;
}
void *malloc(size_t n) { return alloc_exact(n, 0); }
void *calloc(size_t a, size_t b) { return alloc_exact(a * b, 1); }
void free(void *p) { if (p) vf_live--; }
void *realloc(void *p, size_t n) { unsigned char *q = alloc_exact(n, 0); if (!q) return 0;
  if (p) { size_t old = __CPROVER_OBJECT_SIZE(p); for (size_t i = 0; i < old && i < n; i++) q[i] = ((unsigned char *)p)[i]; vf_live--; }
  return q; }
