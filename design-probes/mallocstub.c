#include <stddef.h>
#include <stdint.h>
/* size-dispatch allocator: every allocation gets an object of exactly the requested size,
   but the size is made concrete by a finite case split (sizes above MAXALLOC are outside the bound). */
#ifndef MAXALLOC
#define MAXALLOC 64
#endif
void *__CPROVER_allocate(__CPROVER_size_t size, __CPROVER_bool zero);
static void *alloc_exact(size_t n, int zero) {
  void *p = 0;
#define C(k) else if (n == (k)) p = __CPROVER_allocate((k), zero);
  if (0) {}
  C(0) C(2) C(4) C(6) C(8) C(10) C(12) C(16) C(24) C(32) C(40) C(48) C(56) C(64) C(128)
  else __CPROVER_assume(0);
  return p;
}
void *malloc(size_t n) { return alloc_exact(n, 0); }
void *calloc(size_t a, size_t b) { return alloc_exact(a * b, 1); }
void free(void *p) { (void)p; }
void *realloc(void *p, size_t n) { unsigned char *q = alloc_exact(n, 0); /* copy old contents: caller-visible prefix only */
  if (p) { size_t old = __CPROVER_OBJECT_SIZE(p); for (size_t i = 0; i < old && i < n; i++) q[i] = ((unsigned char *)p)[i]; }
  return q; }
