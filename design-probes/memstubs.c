#include <stddef.h>
#include <stdint.h>
#include <stdlib.h>
/* environment stubs: byte-loop memmove/memcpy/memset and realloc = malloc+copy+free */
void *memmove(void *d, const void *s, size_t n) {
  unsigned char *dd = d; const unsigned char *ss = s;
  if (dd < ss) { for (size_t i = 0; i < n; i++) dd[i] = ss[i]; }
  else { for (size_t i = n; i > 0; i--) dd[i - 1] = ss[i - 1]; }
  return d;
}
void *memcpy(void *d, const void *s, size_t n) { unsigned char *dd = d; const unsigned char *ss = s; for (size_t i = 0; i < n; i++) dd[i] = ss[i]; return d; }
