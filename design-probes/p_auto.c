#include <assert.h>
#include <stdint.h>
#include "varintFloat.h"
double nondet_double(void);
void harness(void) {
  double req = nondet_double(); __CPROVER_assume(req > 0.0 && req < 1.0);
  varintFloatPrecision p; uint8_t buf[8]; double v[1] = {1.0};
  (void)varintFloatEncodeAuto(buf, v, 0, req, VARINT_FLOAT_MODE_INDEPENDENT, &p);
  double bound = p == VARINT_FLOAT_PRECISION_FULL ? 0.0 : p == VARINT_FLOAT_PRECISION_HIGH ? 0x1p-23 : p == VARINT_FLOAT_PRECISION_MEDIUM ? 0x1p-10 : 0x1p-4;
  assert(bound <= req);
}
