#include <assert.h>
#include <stdint.h>
#include "varintExternal.h"
int64_t nondet_i64(void);
void harness(void) {
  int64_t x = nondet_i64(); __CPROVER_assume(x > -(1LL << 39) && x < (1LL << 39));
  int64_t v = x; varintPrepareSigned64to40_(v);
  assert(v >= 0 && v < (1LL << 40));
  uint8_t b[5]; varintExternalPutFixedWidth(b, (uint64_t)v, 5);
  int64_t y = (int64_t)varintExternalGet(b, 5); varintRestoreSigned40to64_(y);
  assert(y == x);
}
