#include <assert.h>
#include <stdint.h>
#define PACK_STORAGE_BITS 4
#define PACK_STORAGE_COMPACT
#define PACK_STATIC
#include "varintPacked.h"
unsigned nondet_u(void); uint8_t nondet_u8(void);
void harness(void) {
  uint8_t a[4]; for (int i = 0; i < 4; i++) a[i] = nondet_u8();      /* exactly 8 four-bit elements */
  unsigned i = nondet_u(); __CPROVER_assume(i < 8);
  varintPackedCompact4Set(a, i, nondet_u8() & 15);
  (void)varintPackedCompact4Get(a, i);
}
