#include <assert.h>
#include <stdint.h>
#include <stddef.h>
#define VBITS uint32_t
#define VBITSVAL uint32_t
#include "varintBitstream.h"
uint32_t nondet_u32(void); unsigned nondet_u(void);
void harness(void) {
  uint32_t s[5], s0[5]; for (int i = 0; i < 5; i++) { s[i] = nondet_u32(); s0[i] = s[i]; }
  unsigned off = nondet_u(), bits = nondet_u(); __CPROVER_assume(off < 64 && bits >= 1 && bits <= 32);
  uint32_t val = nondet_u32(); if (bits < 32) val &= (1u << bits) - 1;
  varintBitstreamSet(s + 1, off, bits, val);
  assert(varintBitstreamGet(s + 1, off, bits) == val);
  for (unsigned p = 0; p < 160; p++) { unsigned q = p - 32; /* stream bit index, MSB-first within a word */
    int inside = p >= 32 && q >= off && q < off + bits;
    if (!inside) assert(((s[p / 32] >> (31 - p % 32)) & 1) == ((s0[p / 32] >> (31 - p % 32)) & 1)); }
}
