#include <assert.h>
#include <stdint.h>
#include "varintExternal.h"
#include "varintTagged.h"
uint64_t nondet_u64(void); int64_t nondet_i64(void); unsigned nondet_u(void);
void harness(void) {
  uint64_t old = nondet_u64(); int64_t add = nondet_i64();
  varintWidth w0; varintExternalUnsignedEncoding(old, w0);
  unsigned w = nondet_u(); __CPROVER_assume(w >= w0 && w <= 8);
  uint8_t buf[10], b0[10]; for (int i = 0; i < 10; i++) buf[i] = 0xA5;
  varintExternalPutFixedWidth(buf, old, w);
  for (int i = 0; i < 10; i++) b0[i] = buf[i];
  varintWidth r = varintExternalAddNoGrow(buf, w, add);
  __int128 sum = (__int128)(int64_t)old + add;
  if (sum > INT64_MAX || sum < INT64_MIN) { assert(r == 0); for (int i = 0; i < 10; i++) assert(buf[i] == b0[i]); }
  else {
    uint64_t nv = (uint64_t)(int64_t)sum; varintWidth need; varintExternalUnsignedEncoding(nv, need);
    for (unsigned i = 0; i < 10; i++) if (i >= w) assert(buf[i] == b0[i]);      /* never beyond the slot */
    if (need > w) { assert(r == need); for (int i = 0; i < 10; i++) assert(buf[i] == b0[i]); }
    else { assert(r == need); assert(varintExternalGet(buf, r) == nv); }
  }
}
