#include <assert.h>
#include <stdint.h>
#include <stdlib.h>
#include "varintAdaptive.h"
uint64_t nondet_u64(void);
#define N 3
void harness(void) {
  uint64_t v[N]; for (int i = 0; i < N; i++) v[i] = nondet_u64();
  uint8_t buf[80];
  size_t w = varintAdaptiveEncodeWith(buf, v, N, VARINT_ADAPTIVE_PFOR, 0);
  __CPROVER_assume(w != 0);
  uint64_t out[N - 1];                       /* capacity one less than stored */
  size_t d = varintAdaptiveDecode(buf, out, N - 1, 0);
  assert(d <= N - 1);
}
