#include <assert.h>
#include <stdint.h>
#include "varintElias.h"
#include "varintRLE.h"
uint8_t nondet_u8(void); unsigned nondet_u(void);
#ifndef L
#define L 3
#endif
void harness(void) {
  uint8_t in[L]; for (int i = 0; i < L; i++) in[i] = nondet_u8();
#ifdef RLE
  (void)varintRLEGetRunCount(in, L);
#else
  uint64_t out[8 * L];
  unsigned bits = nondet_u(); __CPROVER_assume(bits <= 8 * L);
  size_t d = varintEliasGammaDecodeArray(in, bits, out, 8 * L);
  assert(d <= 8 * L);
#endif
}
