#include <assert.h>
#include <stdint.h>
#include <stdlib.h>
#include "varintBitmap.h"
uint8_t nondet_u8(void);
#ifndef L
#define L 7
#endif
void harness(void) {
  uint8_t in[L]; for (int i = 0; i < L; i++) in[i] = nondet_u8();
  varintBitmap *vb = varintBitmapDecode(in, L);
  if (vb) { (void)varintBitmapContains(vb, 3); }
}
