#include <assert.h>
#include <stdint.h>
#include <stdlib.h>
#include "varintDict.h"
uint8_t nondet_u8(void);
#ifndef L
#define L 6
#endif
void harness(void) {
  uint8_t *in = malloc(L); __CPROVER_assume(in);
  for (int i = 0; i < L; i++) in[i] = nondet_u8();
  uint64_t out[4];
  size_t d = varintDictDecodeInto(in, L, out, 4);
  assert(d <= 4);
}
