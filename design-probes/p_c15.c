#include <assert.h>
#include <stdint.h>
#include <stdlib.h>
#include "varintAdaptive.h"
uint64_t nondet_u64(void); uint8_t nondet_u8(void);
#define N 2
void harness(void) {
  uint64_t v[N]; for (int i = 0; i < N; i++) v[i] = nondet_u64();
  uint8_t b1[64], b2[64]; for (int i = 0; i < 64; i++) { b1[i] = nondet_u8(); b2[i] = nondet_u8(); }
  size_t w1 = varintAdaptiveEncodeWith(b1, v, N, VARINT_ADAPTIVE_FOR, 0);
  size_t w2 = varintAdaptiveEncodeWith(b2, v, N, VARINT_ADAPTIVE_FOR, 0);
  assert(w1 == w2);
  for (unsigned i = 0; i < 64; i++) if (i < w1) assert(b1[i] == b2[i]);
}
