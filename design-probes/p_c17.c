#include <assert.h>
#include <stdint.h>
#include <pthread.h>
#include "varintFOR.h"
uint64_t nondet_u64(void);
#define N 2
uint64_t in[N]; uint8_t o1[32], o2[32]; size_t w1, w2;
void *t1(void *a) { w1 = varintFOREncode(o1, in, N, 0); return 0; }
void *t2(void *a) { w2 = varintFOREncode(o2, in, N, 0); return 0; }
void harness(void) {
  for (int i = 0; i < N; i++) in[i] = nondet_u64();
  uint8_t r[32]; size_t w = varintFOREncode(r, in, N, 0);
  pthread_t a, b; pthread_create(&a, 0, t1, 0); pthread_create(&b, 0, t2, 0); pthread_join(a, 0); pthread_join(b, 0);
  assert(w1 == w && w2 == w);
  for (unsigned i = 0; i < 32; i++) if (i < w) assert(o1[i] == r[i] && o2[i] == r[i]);
}
