#include <assert.h>
#include <stdint.h>
#include <stdlib.h>
#include "varintPFOR.h"
uint64_t nondet_u64(void); unsigned nondet_u(void);
extern unsigned vf_alloc_calls, vf_fail_at, vf_live;
#define N 2
void harness(void) {
  uint64_t v[N], out[N]; for (int i = 0; i < N; i++) v[i] = nondet_u64();
  uint8_t buf[64]; varintPFORMeta m;
  vf_fail_at = nondet_u(); __CPROVER_assume(vf_fail_at <= 3);
  size_t w = varintPFOREncode(buf, v, N, 95, &m);
  assert(vf_live == 0);
  if (w != 0) { vf_fail_at = 0; varintPFORMeta dm; dm.width = 0; size_t d = varintPFORDecode(buf, out, &dm);
    assert(d == N); for (int i = 0; i < N; i++) assert(out[i] == v[i]); }
}
