#include <assert.h>
#include <stdint.h>
#include "varintChained.h"
#include "varintChainedSimple.h"
uint64_t nondet_u64(void);
static unsigned ref_be7(uint8_t *o, uint64_t v) { /* big-endian 7-bit groups, full ninth byte */
  if (v >> 56) { o[8] = (uint8_t)v; v >>= 8; for (int i = 7; i >= 0; i--) { o[i] = (uint8_t)(v & 0x7f) | 0x80; v >>= 7; } return 9; }
  unsigned n = 1; while (n < 9 && (v >> (7 * n))) n++;
  for (unsigned i = 0; i < n; i++) o[i] = (uint8_t)((v >> (7 * (n - 1 - i))) & 0x7f) | (i + 1 < n ? 0x80 : 0);
  return n; }
void harness(void) {
  uint64_t v = nondet_u64(), out = 0, out2 = 0;
  uint8_t b[11], r[9], c[11]; for (int i = 0; i < 11; i++) { b[i] = 0xA5; c[i] = 0xA5; }
  unsigned n = varintChainedPutVarint(b + 1, v), m = ref_be7(r, v);
  assert(n == m && n == varintChainedVarintLen(v));
  for (unsigned i = 0; i < 9; i++) if (i < n) assert(b[1 + i] == r[i]); else assert(b[1 + i] == 0xA5);
  assert(varintChainedGetVarint(b + 1, &out) == n && out == v && b[0] == 0xA5 && b[10] == 0xA5);
  unsigned k = varintChainedSimpleEncode64(c + 1, v);
  assert(k == varintChainedSimpleLength(v) && varintChainedSimpleDecode64(c + 1, &out2) == k && out2 == v);
  for (unsigned i = 0; i < 11; i++) if (i < 1 || i >= 1 + k) assert(c[i] == 0xA5);
}
