#include <assert.h>
#include <stdint.h>
#include "varintDelta.h"
uint64_t nondet_u64(void);
#ifndef N
#define N 3
#endif
void harness(void) {
  uint64_t v[N], out[N]; for (int i = 0; i < N; i++) v[i] = nondet_u64();
  uint8_t buf[9 * N + 1]; size_t max = varintDeltaMaxEncodedSize(N); assert(max == sizeof(buf) - 1); buf[max] = 0x5A;
  size_t w = varintDeltaEncodeUnsigned(buf, v, N);
  assert(w <= max && buf[max] == 0x5A);
  size_t r = varintDeltaDecodeUnsigned(buf, N, out);
  assert(r == w); for (int i = 0; i < N; i++) assert(out[i] == v[i]);
}
