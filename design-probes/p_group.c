#include <assert.h>
#include <stdint.h>
#include "varintGroup.h"
uint64_t nondet_u64(void); unsigned nondet_u(void);
#ifndef N
#define N 4
#endif
void harness(void) {
  uint64_t v[N], out[N]; for (int i = 0; i < N; i++) v[i] = nondet_u64();
  uint8_t buf[1 + 1 + 8 * N + 1]; size_t pred = varintGroupSize(v, N);
  assert(pred <= sizeof(buf) - 1); buf[pred] = 0x5A;
  size_t w = varintGroupEncode(buf, v, N);
  assert(w == pred && buf[pred] == 0x5A && varintGroupGetSize(buf) == w && varintGroupGetFieldCount(buf) == N);
  uint8_t fc = 0; size_t r = varintGroupDecode(buf, out, &fc, N);
  assert(r == w && fc == N); for (int i = 0; i < N; i++) assert(out[i] == v[i]);
  unsigned k = nondet_u(); __CPROVER_assume(k < N); uint64_t one; assert(varintGroupGetField(buf, k, &one) != 0 && one == v[k]);
  uint64_t small[N - 1]; uint8_t fc2; assert(varintGroupDecode(buf, small, &fc2, N - 1) == 0);
}
