#include <assert.h>
#include <stdint.h>
#include <stdlib.h>
#include "varintRLE.h"
uint64_t nondet_u64(void); unsigned nondet_u(void);
#ifndef N
#define N 3
#endif
void harness(void) {
  uint64_t v[N], out[N]; for (int i = 0; i < N; i++) v[i] = nondet_u64();
  __CPROVER_assume(v[0] != v[1] && v[1] != v[2]);
  __CPROVER_assume(varintTaggedLen(v[0]) == W0 && varintTaggedLen(v[1]) == W1 && varintTaggedLen(v[2]) == W2);
  uint8_t tmp[10 * N + 10];
  varintRLEMeta meta;
  size_t w = varintRLEEncode(tmp, v, N, &meta);
  assert(w <= varintRLEMaxSize(N)); assert(w == varintRLESize(v, N));          /* C03 */
  unsigned runs = 1; for (int i = 1; i < N; i++) if (v[i] != v[i - 1]) runs++;
  assert(meta.count == N && meta.runCount == runs && meta.encodedSize == w);      /* C16 */
  assert(w == 3 + W0 + W1 + W2); uint8_t enc[3 + W0 + W1 + W2];                               /* exact-size copy: over-read = bounds failure */
  for (unsigned i = 0; i < sizeof tmp; i++) if (i < w) enc[i] = tmp[i];
  size_t d = varintRLEDecode(enc, out, N);
  assert(d == N); for (int i = 0; i < N; i++) assert(out[i] == v[i]);            /* C02 */
  unsigned k = nondet_u(); __CPROVER_assume(k < N); assert(varintRLEGetAt(enc, k) == v[k]);
  assert(varintRLEGetRunCount(enc, w) == runs);                                   /* C16 accessor */
  /* C13: capacity N-1 */
  uint64_t small[N - 1]; size_t d2 = varintRLEDecode(enc, small, N - 1);
  assert(d2 <= N - 1); for (unsigned i = 0; i < N - 1; i++) if (i < d2) assert(small[i] == v[i]);
}
