#include <assert.h>
#include <stdint.h>
#include "varintExternal.h"
#include "varintSplit.h"
#include "varintSplitFull.h"
#include "varintSplitFullNoZero.h"
#include "varintSplitFull16.h"
uint64_t nondet_u64(void);
void harness(void) {
  uint64_t v = nondet_u64();
  uint8_t b[11]; for (int i = 0; i < 11; i++) b[i] = 0xA5;
  uint8_t len = 0, plen = 0, glen = 0; uint64_t out = 0;
#if FAM == 0
  varintSplitPut_(b + 1, len, v); varintSplitLength_(plen, v); varintSplitGet_(b + 1, glen, out);
  assert(varintSplitGetLenQuick_(b + 1) == len);
#elif FAM == 1
  varintSplitFullPut_(b + 1, len, v); varintSplitFullLength_(plen, v); varintSplitFullGet_(b + 1, glen, out);
  assert(varintSplitFullGetLenQuick_(b + 1) == len);
#elif FAM == 2
  __CPROVER_assume(v != 0);
  varintSplitFullNoZeroPut_(b + 1, len, v); varintSplitFullNoZeroLength_(plen, v); varintSplitFullNoZeroGet_(b + 1, glen, out);
  assert(varintSplitFullNoZeroGetLenQuick_(b + 1) == len);
#elif FAM == 3
  varintSplitFull16Put_(b + 1, len, v); varintSplitFull16Length_(plen, v); varintSplitFull16Get_(b + 1, glen, out);
  assert(varintSplitFull16GetLenQuick_(b + 1) == len);
#elif FAM == 4
  varintSplitReversedPutReversed_(b + 9, len, v); varintSplitLength_(plen, v); varintSplitReversedGet_(b + 9, glen, out);
#endif
  assert(out == v && len == plen && len == glen && len >= (FAM == 3 ? 2 : 1) && len <= 9);
#if FAM != 4
  for (unsigned i = 0; i < 11; i++) if (i < 1 || i >= 1u + len) assert(b[i] == 0xA5);
#else
  for (unsigned i = 0; i < 11; i++) if (i > 9 || i + len <= 9) assert(b[i] == 0xA5);
#endif
}
