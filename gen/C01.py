from vlib.core import Query

META = {
    "bounds": "none beyond machine width: each query quantifies over all 2^64 values (all 2^32 for the 32-bit entry points), "
              "all 256 prior buffer fills, buffer offsets 0 and 1, every legal fixed width; loops unwound 10 (tagged/external/"
              "split width loops need <= 9) with unwinding assertions; both NDEBUG settings",
    "outside": "big-endian hosts (endianIsLittle() false branch), 128-bit *Big entry points; tagged fixed widths 2 and 3 for "
               "values below the format's offset (the 2/3-byte formats cannot represent them: 'legal' width = minimal, or any of 4..9 >= minimal)",
    "assumptions": ["CBMC 6.11 C semantics, little-endian x86_64 data model", "byte-loop memcpy/memmove/memset stubs (harness/common/stub_mem.c)"],
}


def queries(tier):
    qs = []
    for nd in (True, False):
        sfx = "" if nd else "+asserts"
        qs.append(Query("tagged" + sfx, "scalar/tagged.c", ["varintTagged.c"], ndebug=nd, checks="all", timeout=300))
        qs.append(Query("external-le" + sfx, "scalar/external.c", ["varintExternal.c", "varintExternalBigEndian.c"], ndebug=nd, checks="all"))
        qs.append(Query("external-be" + sfx, "scalar/external.c", ["varintExternal.c", "varintExternalBigEndian.c"], defs={"BIG": 1}, ndebug=nd, checks="all"))
        qs.append(Query("chained" + sfx, "scalar/chained.c", ["varintChained.c", "varintChainedSimple.c"], ndebug=nd, checks="all"))
        for fam, nm in enumerate(["split", "splitfull", "splitfullnozero", "splitfull16"]):
            qs.append(Query(nm + sfx, "scalar/split.c", ["varintExternal.c"], defs={"FAM": fam}, ndebug=nd, checks="all"))
        for bits in (24, 40, 48, 56):
            qs.append(Query("signed%d" % bits + sfx, "scalar/signedfield.c", ["varintExternal.c"], defs={"BITS": bits}, ndebug=nd, checks="all"))
    return qs
