from gen.arrays import codec_queries

META = {
    "bounds": "arrays of n jointly symbolic full-width elements, n as a compile-time constant: FOR n<=4 (all 72 offset-width x "
              "min-width classes in thorough, every width once in quick) incl. GetAt, DecodeBlock (symbolic start/size), Batch and "
              "already-analysed encoders; PFOR n<=3 at thresholds 90/95/99 in width classes, both decode paths and GetAt; group n<=4; "
              "delta signed/unsigned n<=4; RLE n<=3 both formats + GetAt; dictionary n<=3 both decoders + explicit dictionary, and a literal 255/256/257-entry dictionary (index-width boundary) with 2 symbolic members; Elias "
              "gamma/delta n=1 all values, n=2 in floor-log2 class pairs; BP128 all four codecs at the real block size with partial "
              "blocks n<=3 and with the block size scaled to 4 (MATTSTA_VARINT_VERIF hook) for n in {4,5,9}: full block, full+partial, "
              "two full + partial, split by bit-width class. The decoder is given the encoder's bytes followed by unrelated symbolic "
              "junk, so a result that depends on bytes past the reported length fails.",
    "outside": "more than 4 jointly symbolic elements per query; lengths 240/241, 2287/2288, 4095..4097, 65535/65536 (count-varint "
               "boundaries; the tagged count varint itself is decided for all values in C01/C04); SIMD builds (AVX2/NEON paths are not "
               "compiled by the pinned build); real 128-element blocks (scaled instances instead)",
    "assumptions": ["qsort stub = insertion sort calling the real comparator", "exact-size dispatch allocator (harness/common/vp_alloc.inc)",
                    "byte-loop mem* stubs (dict-width queries: memcpy copies aligned 8-byte words, stub_mem64.c)", "delta signed: differences representable in int64 (documented domain); Elias: values >= 1; "
                    "BP128 delta: non-decreasing input"],
}


def queries(tier):
    return codec_queries(2, tier)
