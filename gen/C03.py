from gen.arrays import codec_queries

META = {
    "bounds": "same arrays as C02 (n <= 4 symbolic elements, width classes). Destination = object of exactly the advertised size "
              "where that size is a constant of the class (FOR, delta, Elias: CBMC bounds check is the oracle), otherwise a buffer "
              "with symbolic prior contents in which every byte at or beyond the advertised size must be unchanged (PFOR, group, "
              "dict, RLE, BP128); returned length <= advertised, == where documented exact (FOR, group, dict, RLESize)",
    "outside": "adaptive arrays above n = 3; PFOR exception indices larger than their ordinal (needs > 240 elements); "
               "varintFloatMaxEncodedSize is decided inside C07's harness (destination of exactly that size)",
    "assumptions": ["as C02"],
}


def queries(tier):
    from gen import adaptive
    return codec_queries(3, tier) + adaptive.queries(3, tier)
