from vlib.core import Query

META = {
    "bounds": "all 2^64 values per family (pairs a<b: all 2^128) for byte-exactness, per-length maxima, injectivity and monotonicity; "
              "Elias single-value codes for all values >= 1 (split by floor(log2) class in thorough, unsplit in quick); loops unwound to "
              "their code-derived maxima (9 width, 64/65 bit loops) with unwinding assertions",
    "outside": "README prose: the 'Storage Overview' table prints 81,982 for Split/3 bytes where the header layout and the code give "
               "81,981 - the header layout is used as the reference and the discrepancy is documentation only",
    "assumptions": ["reference encoders in harness/scalar/ref.h and split.c written from the format comments", "byte-loop mem* stubs"],
}

SPLITS = ["split", "splitfull", "splitfullnozero", "splitfull16"]
FAMS = ["tagged", "external", "chained", "chainedsimple"] + SPLITS
UNITS = ["varintTagged.c", "varintExternal.c", "varintChained.c", "varintChainedSimple.c"]


def queries(tier):
    qs = []
    qs.append(Query("bytes-tagged", "scalar/tagged.c", ["varintTagged.c"], checks="none"))
    qs.append(Query("bytes-external-le", "scalar/external.c", ["varintExternal.c", "varintExternalBigEndian.c"], checks="none"))
    qs.append(Query("bytes-external-be", "scalar/external.c", ["varintExternal.c", "varintExternalBigEndian.c"], defs={"BIG": 1}, checks="none"))
    qs.append(Query("bytes-chained", "scalar/chained.c", ["varintChained.c", "varintChainedSimple.c"], checks="none"))
    for fam, nm in enumerate(SPLITS):
        qs.append(Query("bytes-" + nm, "scalar/split.c", ["varintExternal.c"], defs={"FAM": fam}, checks="none"))
    for fam, nm in enumerate(FAMS):
        qs.append(Query("maxima-monotone-" + nm, "scalar/mono.c", UNITS, defs={"FAM": fam}, checks="none", timeout=600))
    qs.append(Query("zigzag", "scalar/zigzag.c", ["varintDelta.c", "varintExternal.c"], checks="none"))
    uw = {"floorLog2.0": 65, "varintBitWriterWrite.0": 66, "varintBitReaderRead.0": 66, "varintEliasGammaEncode.0": 65,
          "varintEliasGammaDecode.0": 66, "ref_log2.0": 65, "ref_gamma.0": 65, "ref_gamma.1": 66, "ref_delta.0": 65, "memset.0": 18}
    if tier == "quick":
        for code, nm in ((0, "gamma"), (1, "delta")):
            for lg in (0, 1, 7, 8, 31, 62, 63):
                qs.append(Query("elias-%s-log2=%d" % (nm, lg), "scalar/elias1.c", ["varintElias.c"], defs={"CODE": code, "LOG2": lg},
                                checks="none", unwind=18, unwindset=uw, timeout=600))
    else:
        for code, nm in ((0, "gamma"), (1, "delta")):
            for lg in range(64):
                qs.append(Query("elias-%s-log2=%d" % (nm, lg), "scalar/elias1.c", ["varintElias.c"], defs={"CODE": code, "LOG2": lg},
                                checks="none", unwind=18, unwindset=uw, timeout=900))
    return qs
