from vlib.core import Query

META = {
    "bounds": "all pairs of 64-bit values (2^128), all pairs of 2-tuples (2^256) and 3-tuples (2^384); longer tuples follow by "
              "induction from prefix-freeness (asserted directly as P:order.prefix_free), an argument not discharged by the solver",
    "outside": "tuples longer than 3 (by the induction argument only)",
    "assumptions": ["memcmp compares bytes as unsigned char in order (harness reference); libc memcmp replaced by byte-loop stub"],
}


def queries(tier):
    qs = []
    for t in (1, 2, 3):
        qs.append(Query("order-tuple%d" % t, "scalar/order.c", ["varintTagged.c"], defs={"TUPLE": t}, checks="mem", unwind=30, timeout=900,
                        weight=t))
    return qs
