from vlib.core import Query
from gen.adaptive import aq, NAMES, U, bitmap_arm

META = {
    "bounds": "(a) selection vs domain: arbitrary statistics with count a free variable up to 2^40 (every array length incl. the "
              "sampled > 10000 regime, where the unique-count estimate is a separate free variable) - no array bound; (b) "
              "varintAdaptiveAnalyze truthful for n <= 3 symbolic elements; (c) each of the six encodings forced on n = 2 (quick) / "
              "n <= 3 (thorough) symbolic elements in its documented domain: header byte == encoding == meta, decode == input; (d) "
              "automatic Encode -> Decode end to end on n = 2, split by selected encoding (thorough: also n = 3 for tagged/delta/for)",
    "outside": "the DICT arm through the adaptive dispatch (the SAT instance exceeds 36 GB; the dictionary codec itself is decided in C02/C03/C13/C14/C18, and automatic selection reaches DICT only for n >= 7); the BITMAP arm as ONE query through varintAdaptiveEncodeWith + Decode (symbolic execution through varintBitmapCreate/Add/Encode/Decode/ToArray inside the adaptive dispatch did not finish in 20 minutes even at the scaled container constants): the BITMAP arm is instead decided in two halves that meet at the explicit byte string (bitmap-arm-encode-*, bitmap-arm-decode-*), n <= 4; payloads above 1 MiB (varintAdaptiveDecode passes a fixed 1 MiB length to the dict/bitmap decoders - a suspect from "
               "reading, needs > 3*10^5 elements); arrays of more than 3 jointly symbolic elements through the real encoders",
    "assumptions": ["size-dispatch allocator, insertion-sort qsort stub, byte-loop mem* stubs",
                    "documented domain of forced BITMAP: strictly increasing values below 65536"],
}


def queries(tier):
    q = tier == "quick"
    qs = [Query("select-vs-domain", "adaptive/select.c", ["varintAdaptive.c"], checks="none", timeout=600, native_units=U)]
    for n in ((2,) if q else (1, 2, 3)):
        qs.append(aq("analyze-truth-n%d" % n, {"N": n, "MODE": 2, "PROP": 6}, weight=2))
    for f in (0, 1, 2, 5):   # BITMAP (4) and DICT (3) arms: see META "outside"
        for n in ((2,) if q else (1, 2, 3)):
            qs.append(aq("forced-%s-n%d" % (NAMES[f], n), {"N": n, "MODE": 0, "FORCE": f, "PROP": 6}))
    # TAGGED arm with enough 9-byte values to exhaust any per-value byte budget of the decoder (9, 10 elements)
    for n in ((9,) if q else (9, 10)):
        qs.append(aq("forced-tagged-n%d-wide" % n, {"N": n, "MODE": 0, "FORCE": 5, "PROP": 6, "WIDE_LIT": 1}, to=1800, weight=8))
    # BITMAP arm: encoder against the explicit serialisation, decoder from that serialisation (transitivity gives the round trip)
    for n in ((3,) if q else (1, 2, 3, 4)):
        qs.append(bitmap_arm("bitmap-arm-encode-n%d" % n, {"N": n, "PART": 1}))
        qs.append(bitmap_arm("bitmap-arm-decode-n%d" % n, {"N": n, "PART": 2}))
    for sel in (0, 1, 2, 5):
        for n in ((2,) if q else (2, 3)):
            qs.append(aq("auto-n%d-selects-%s" % (n, NAMES[sel]), {"N": n, "MODE": 1, "SEL": sel, "PROP": 6}, to=2400, weight=9))
    # (the undecomposed varintAdaptiveEncode entry point at n = 2 exhausts 12 GB in the SAT back end - all six encoder arms
    #  in one formula - and is not registered; its three-line body is what the decomposition above follows)
    return qs
