from vlib.core import Query

META = {
    "bounds": "arrays of N IEEE-754 doubles given as unconstrained 64-bit patterns (every sign / exponent / mantissa: NaN payloads, "
              "infinities, signed zeros, subnormals, mantissas that carry on rounding, any mix of magnitudes and of special and normal "
              "values in one array), no case split; quick: N = 1 and N = 2 for all 4 precisions x 3 exponent modes; thorough: "
              "additionally N = 3 for all 12 pairs and N = 4 for FULL and LOW; automatic precision selection: every requested error "
              "0 < e < 1 (all bit patterns in (0, 0x3ff0000000000000)) with symbolic data, N = 1 (quick) / N = 2 (thorough), 3 modes: "
              "the published bound of the selected precision is compared with the request and the round trip with the selected bound; "
              "Decompose/Compose: all 2^64 patterns; destination buffer of exactly varintFloatMaxEncodedSize bytes; bit loops unwound to "
              "mantissa bits + 1, element loops to N + 1, with unwinding assertions",
    "outside": "arrays of more than 4 values (more than 2 in the quick tier, more than 3 for HIGH/MEDIUM); varintFloatReadMeta / "
               "varintFloatAnalyze (declared in varintFloat.h, defined nowhere); requested errors outside (0,1) incl. NaN; allocation "
               "failure inside the codec (C18); decoding bytes that no encoder produced (C14); the ldexp() call inside "
               "varintFloatPrecisionMaxRelativeError (the published bound 2^-mantissa_bits is taken from its documentation)",
    "assumptions": ["oracle: exact integer arithmetic on (sign, 11-bit exponent, 52-bit fraction); relative error bound of a precision "
                    "= 2^-(mantissa bits) with 52/23/10/4 mantissa bits as published in varintFloat.h; special = NaN, infinity, zero, "
                    "subnormal as documented for varintFloatIsSpecial / varintFloatDecompose",
                    "an output of infinity is accepted only for a top-binade value whose round-to-nearest at the reduced precision "
                    "carries to 2^1024",
                    "size-dispatch allocator (exact object sizes, never fails), byte-loop mem* stubs"],
}

U = ["varintFloat.c", "varintExternal.c"]
KB = {0: 52, 1: 23, 2: 10, 3: 4}
PN = {0: "full", 1: "high", 2: "medium", 3: "low"}
MN = {0: "independent", 1: "common", 2: "delta"}


def _q(name, n, prec, mode, timeout, auto=False, weight=1):
    kb = 52 if auto else KB[prec]
    defs = {"N": n, "MODE": mode}
    if auto:
        defs["AUTO"] = 1
    else:
        defs["PREC"] = prec
    # per-loop bounds from the code: bit loops run mantissa-bits times, element loops N times (the decoder's count of normal
    # values is data dependent, so a large global bound would unroll the N-bounded loops needlessly), memcpy moves 8 bytes,
    # the exponent width loops (while (v >>= 8)) run at most twice for an 11-bit exponent.
    # --no-array-field-sensitivity: the encoded buffer is written at data-dependent offsets; per-cell expansion of every such
    # write made the formula quadratic in the buffer size (measured at N=2 FULL: 66 s -> 43 s, same verdicts).
    uw = {"packBits.0": kb + 2, "unpackBits.0": kb + 2, "memset.0": (n * kb + 7) // 8 + 2, "memcpy.0": 10}
    return Query(name, "float/codec.c", U, defs=defs, unwind=max(n + 2, 4), unwindset=uw, checks="mem", timeout=timeout,
                 weight=weight, extra=["--no-array-field-sensitivity"])


def queries(tier):
    qs = []
    thorough = tier != "quick"
    to = 1800 if thorough else 600
    qs.append(Query("fields-decompose-compose", "float/fields.c", ["varintFloat.c"], checks="mem", timeout=300))
    for prec in range(4):
        for mode in range(3):
            tag = "%s-%s" % (PN[prec], MN[mode])
            qs.append(_q("codec-n1-" + tag, 1, prec, mode, to, weight=1 + KB[prec] // 20))
            qs.append(_q("codec-n2-" + tag, 2, prec, mode, to, weight=4 + KB[prec] // 10))
            if thorough:
                qs.append(_q("codec-n3-" + tag, 3, prec, mode, 2400, weight=10 + KB[prec] // 10))
                if prec in (0, 3):
                    qs.append(_q("codec-n4-" + tag, 4, prec, mode, 3000, weight=30 if prec == 0 else 20))
    for mode in range(3):
        qs.append(_q("auto-n1-" + MN[mode], 1, None, mode, to, auto=True, weight=4))
        if thorough:
            qs.append(_q("auto-n2-" + MN[mode], 2, None, mode, 2400, auto=True, weight=12))
    return qs
