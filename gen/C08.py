"""C08 — bitmap as a set under any history: inductive step over concrete container shapes with symbolic contents.

Three harnesses (harness/bitmap/):
  step.c  scaled universe, library fully inlined: observers, Add, Remove, Clear, Clone, Encode->Decode, Decode, Create
  mod.c   scaled universe, callers that are loops over public operations, callee replaced by its contract
          (goto-instrument --replace-calls): AddRange, RemoveRange, AddMany, Or, And, Xor, AndNot
  real.c  real constants, small shapes, interval-list oracle: numeric effects tied to 65535
"""
from vlib.core import Query

UNITS = ["varintBitmap.c"]


def scale(u, amax, dcap):
    return {"VARINT_VERIF_BITMAP_MAX_VALUE": u, "VARINT_VERIF_BITMAP_ARRAY_MAX": amax, "VARINT_VERIF_BITMAP_BITMAP_SIZE": u // 8,
            "VARINT_VERIF_BITMAP_DEFAULT_ARRAY_CAPACITY": dcap}


SCALES = {"s16": (16, 4, 2), "s8": (8, 2, 1), "s32": (32, 8, 2)}

META = {
    "bounds": "inductive step: pre-state = any well-formed container of a concrete shape with symbolic contents, one operation with "
              "symbolic operands. Scaled instances via the MATTSTA_VARINT_VERIF hook of varintBitmap.h: s16 = universe 16, ARRAY_MAX 4, "
              "2-byte bitmap, default capacity 2; s8 = universe 8, ARRAY_MAX 2, 1-byte bitmap, default capacity 1; thorough only: s32 = "
              "universe 32, ARRAY_MAX 8, 4-byte bitmap, default capacity 2 (one-step and range queries, quick shape grid, without the "
              "iterator/ToArray scan of a bitmap container). Shapes: array "
              "cardinality 0..ARRAY_MAX x capacity (quick: tight and ARRAY_MAX; thorough: every capacity up to 2*ARRAY_MAX-1), bitmap "
              "(every content; split by cardinality class where the operation converts), runs containers of 0, 1 and 2 runs (split by total "
              "cardinality where the operation converts). Operations: Create, Add, Remove, Clear, Clone, Encode->Decode, Decode of a "
              "hand-written consistent serialisation, AddRange, RemoveRange, AddMany (0..3 values), Or/And/Xor/AndNot on every pair of "
              "shapes incl. both operands being the same object; observers Contains(symbolic x), Cardinality, IsEmpty, full iterator "
              "sequence, ToArray on every shape. Callers that loop over Add/Remove (and, for the set algebra, Contains/IteratorNext) "
              "are verified against the callee contracts proved by the one-step queries of the same scale (set algebra: s8 on 5 shapes per "
              "operand plus s16 Or/And/AndNot in quick; s8 and s16 on every shape pair in thorough). Real constants (65536/4096/8192/16): "
              "arrays of 0..4 members, bitmaps that are zero except 0..2 members, runs containers with 0..2 runs; contents drawn from five "
              "16-value windows at 0, 256, 4096, 32768 and the top of uint16_t (run ends up to 65536), operands and the membership probe "
              "full 16-bit: observers (first 6 members through the iterator), Add, Remove, Clear, Clone, Encode->Decode, and modular "
              "AddRange/RemoveRange of length <= 8 plus AddRange longer than 4096 on an empty set (the single-run shortcut).",
    "outside": "allocation failure (C18); hostile serialisations (C14); histories are covered only through the induction (every "
               "post-state is shown well-formed, every well-formed shape of the scaled instance is a pre-state of every operation), not "
               "by exploring sequences; at the real constants: contents outside the five windows, dense bitmaps, iteration/ToArray/conversion/Clear/Clone/"
               "serialisation of a bitmap container, runs containers whose conversion needs more than 4 steps, ranges of length 9..4096, "
               "ranges > 4096 on a non-empty set "
               "(the same code is covered at the scaled constants); runs containers with more than 2 runs; GetStats/SizeBytes/Optimize.",
    "assumptions": [
        "well-formed container = what varintBitmapDecode builds from a consistent serialisation (sorted duplicate-free array of at most "
        "ARRAY_MAX values with capacity >= cardinality; bitmap with cardinality == popcount; ascending separated runs of length 1..65535 "
        "with cardinality == sum of lengths), so every pre-state is reachable through the public API",
        "scaling: the scaled universe stands for uint16_t, so operands are values of the universe (range bounds <= U-1 like 65535) and a run "
        "is at most U-1 long; the hook only changes the four container constants",
        "modular queries: Add/Remove (and Contains/IteratorNext in the set algebra) behave on well-formed containers as their one-step "
        "queries in this same check prove; malloc never fails",
    ],
}


def arr_shapes(amax, tier):
    out = []
    for card in range(0, amax + 1):
        if tier == "quick":
            caps = sorted({card, amax} | ({2 * amax - 1} if card == amax else set()))
        else:
            caps = range(card, 2 * amax)
        for cap in caps:
            out.append(("A%dc%d" % (card, cap), {"T1": 0, "CARD1": card, "CAP1": cap}))
    return out


def pick(full, tier, keep):
    return [k for k in full if tier != "quick" or k in keep]


def step_queries(sn, tier):
    u, amax, dcap = SCALES[sn]
    sc = scale(u, amax, dcap)
    qs = []

    def S(name, op, sd, obs, w=1, to=600):
        d = dict(sc); d.update(sd); d["OP"] = op; d["OBS"] = obs
        qs.append(Query("%s-%s" % (sn, name), "bitmap/step.c", UNITS, defs=d, unwind=u + 3, timeout=to, weight=w))

    A = arr_shapes(amax, tier)
    thr = {0, 1, amax - 1, amax, amax + 1, u - 1, u}
    R = [("R0c0", {"T1": 2, "NR1": 0, "RCAP1": 0}), ("R0c1", {"T1": 2, "NR1": 0, "RCAP1": 1}), ("R1", {"T1": 2, "NR1": 1, "RCAP1": 1}),
         ("R2", {"T1": 2, "NR1": 2, "RCAP1": 2})]
    if tier != "quick":
        R += [("R1c2", {"T1": 2, "NR1": 1, "RCAP1": 2})]
    S("create", 7, {"T1": 0}, 7)
    # observers on every shape
    for n, d in A:
        S("observe-%s" % n, 0, d, 7)
    for n, d in [("B", {"T1": 1})] + R:
        if n.startswith("R0"):
            S("observe-%s" % n, 0, d, 7)
        else:
            for obs, on in ((1, "scalar"), (2, "iter"), (4, "toarray")):
                if sn == "s32" and n == "B" and obs != 1:
                    continue    # 33 x 33 bitmap scan steps on symbolic bits: no verdict in 10 min; same code at s8/s16
                S("observe-%s-%s" % (n, on), 0, d, obs, w=4)
    # Add / Remove
    for op, on in ((1, "add"), (2, "remove")):
        for n, d in A:
            S("%s-%s" % (on, n), op, d, 1, w=2)
        if op == 1:
            S("add-B", op, {"T1": 1}, 1)
        else:
            for k in pick(range(0, u + 1), tier, thr):
                S("remove-B%d" % k, op, {"T1": 1, "CCARD1": k}, 1)
        S("%s-R0c0" % on, op, {"T1": 2, "NR1": 0, "RCAP1": 0}, 1)
        S("%s-R0c1" % on, op, {"T1": 2, "NR1": 0, "RCAP1": 1}, 1)
        for nr in (1, 2):
            for k in pick(range(nr, u), tier, thr | {2}):
                S("%s-R%d-card%d" % (on, nr, k), op, {"T1": 2, "NR1": nr, "RCAP1": nr, "CCARD1": k}, 1)
    # Clear / Clone / Encode->Decode / Decode
    for op, on in ((3, "clear"), (4, "clone"), (5, "encdec"), (6, "decode")):
        for n, d in A + [("B", {"T1": 1})] + R:
            if op == 6 and d.get("T1") == 0 and d["CAP1"] != d["CARD1"]:
                continue        # Decode always builds capacity == cardinality
            if op == 6 and d.get("T1") == 2 and d["RCAP1"] != d["NR1"]:
                continue
            S("%s-%s" % (on, n), op, d, 1)
    return qs


RC = {"varintBitmapAdd": "contract_add", "varintBitmapRemove": "contract_remove"}
RCA = dict(RC, varintBitmapContains="contract_contains", varintBitmapIteratorNext="contract_next")


def mod_queries(sn, tier, algebra):
    u, amax, dcap = SCALES[sn]
    sc = scale(u, amax, dcap)
    qs = []

    def M(name, op, sd, w=1, to=600):
        d = dict(sc); d.update(sd); d["OP"] = op; d["OBS"] = 1 if op < 13 else 0
        qs.append(Query("%s-%s" % (sn, name), "bitmap/mod.c", UNITS, defs=d, unwind=u + 3, timeout=to, weight=w,
                        replace_calls=RC if op < 13 else RCA))

    A = arr_shapes(amax, tier)
    R = [("R0", {"T1": 2, "NR1": 0, "RCAP1": 1}), ("R1", {"T1": 2, "NR1": 1, "RCAP1": 1}), ("R2", {"T1": 2, "NR1": 2, "RCAP1": 2})]
    for n, d in A + [("B", {"T1": 1})] + R:
        M("addrange-%s" % n, 10, d, w=2)
        M("removerange-%s" % n, 11, d, w=2)
        for nm in ((3,) if tier == "quick" else (0, 1, 2, 3)):
            M("addmany%d-%s" % (nm, n), 12, dict(d, NMANY=nm))
    if not algebra:
        return qs
    if algebra == "full":
        ops1 = [("A%d" % c, {"T1": 0, "CARD1": c, "CAP1": c}) for c in range(0, amax + 1)] + [("B", {"T1": 1})] + R
    else:
        ops1 = [("A0", {"T1": 0, "CARD1": 0, "CAP1": 0}), ("A%d" % (amax // 2), {"T1": 0, "CARD1": amax // 2, "CAP1": amax}),
                ("A%d" % amax, {"T1": 0, "CARD1": amax, "CAP1": amax}), ("B", {"T1": 1}), ("R2", {"T1": 2, "NR1": 2, "RCAP1": 2})]
    for op, on in ((13, "or"), (14, "and"), (15, "xor"), (16, "andnot")):
        if op == 15 and algebra == "some-noxor":
            continue    # s16 Xor (two iterations): up to ~250 s per query, thorough tier only
        for n1, d1 in ops1:
            M("%s-%s-self" % (on, n1), op, dict(d1, ALIAS=1), w=3)
            for n2, d2 in ops1:
                dd = dict(d1)
                dd.update({k.replace("1", "2"): v for k, v in d2.items()})
                M("%s-%s-%s" % (on, n1, n2), op, dd, w=8 if u > 8 else 3, to=900)
    return qs


def real_queries(tier):
    qs = []
    # 8192-byte bitmap: byte loops of the mem stubs; without --arrays-uf-always CBMC bit-blasts the whole object per
    # symbolic-index update and does not finish
    big = {"memcpy.0": 8200, "memset.0": 8200}

    def Rq(name, op, sd, w=2, to=600):
        d = dict(sd); d["OP"] = op
        qs.append(Query("real-%s" % name, "bitmap/real.c", UNITS, defs=d, unwind=10, unwindset=big if sd.get("T1") == 1 else None,
                        timeout=to, weight=w, extra=["--arrays-uf-always"] if sd.get("T1") == 1 else []))

    OPN = {0: "observe", 1: "add", 2: "remove", 3: "clear", 4: "clone", 5: "encdec"}
    cards = (0, 1, 2, 4) if tier == "quick" else (0, 1, 2, 3, 4)
    for card in cards:
        for cap in sorted({card, 16}) if tier != "quick" else (card,) if card else (0, 16):
            for op in OPN:
                Rq("%s-A%dc%d" % (OPN[op], card, cap), op, {"T1": 0, "CARD1": card, "CAP1": cap})
    # AddRange / RemoveRange of length <= 8 and the single-run shortcut (long range on an empty set), callee replaced
    for n, sd in (("A0c0", {"T1": 0, "CARD1": 0, "CAP1": 0}), ("A0c16", {"T1": 0, "CARD1": 0, "CAP1": 16}),
                  ("A1c1", {"T1": 0, "CARD1": 1, "CAP1": 1}), ("A4c4", {"T1": 0, "CARD1": 4, "CAP1": 4}), ("R0", {"T1": 2, "NR1": 0, "RCAP1": 1}),
                  ("R1", {"T1": 2, "NR1": 1, "RCAP1": 1}), ("R2", {"T1": 2, "NR1": 2, "RCAP1": 2})):
        for op, on, loop in ((12, "addrange", "varintBitmapAddRange.0"), (13, "removerange", "varintBitmapRemoveRange.0")):
            qs.append(Query("real-%s-mod-%s" % (on, n), "bitmap/real.c", UNITS, defs=dict(sd, OP=op), unwind=10,
                            unwindset={loop: 10}, timeout=600, weight=3,
                            replace_calls={"varintBitmapAdd": "contract_add_real", "varintBitmapRemove": "contract_remove_real"}))
    for card in (0, 1, 2):
        for op in (0, 1, 2):    # whole-object operations on 8192 symbolic-index bytes do not finish (covered scaled)
            Rq("%s-B%d" % (OPN[op], card), op, {"T1": 1, "CARD1": card}, w=4)
    for op in OPN:
        Rq("%s-R0" % OPN[op], op, {"T1": 2, "NR1": 0, "RCAP1": 1})
    for nr in (1, 2):
        for op in (0, 3, 4, 5):
            Rq("%s-R%d" % (OPN[op], nr), op, {"T1": 2, "NR1": nr, "RCAP1": nr})
        for k in range(nr, 5 if tier != "quick" else 4):
            for op in (1, 2):
                Rq("%s-R%d-card%d" % (OPN[op], nr, k), op, {"T1": 2, "NR1": nr, "RCAP1": nr, "CCARD1": k})
    return qs


def queries(tier):
    qs = []
    qs += step_queries("s16", tier)
    qs += step_queries("s8", tier)
    qs += mod_queries("s16", tier, "some-noxor" if tier == "quick" else "full")
    qs += mod_queries("s8", tier, "some" if tier == "quick" else "full")
    qs += real_queries(tier)
    if tier != "quick":
        # a third ratio (ARRAY_MAX 8: deeper binary search, two capacity doublings); shapes as in the quick grid
        qs += step_queries("s32", "quick") + mod_queries("s32", "quick", None)
    return qs
