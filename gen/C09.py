from math import gcd
from vlib.core import Query

META = {
    "bounds": "instantiations: bit widths 1..32 x slot types 8/16/32/64 x {default, compact (header-selected slot and explicit slot), "
              "micro-promotion as in varintDimension.c (slot uint8_t, micro uint16_t, PACK_MAX_ELEMENTS 3700) and varintPackedTest.c}, "
              "filtered by 'no element spans three slots' (bits <= slot + gcd(bits, slot)); Set/Get/SetIncr/SetHalf: 9-element array "
              "(every start-bit residue that occurs within 9 elements; all residues for slot <= 64 when gcd-cycle <= 9, stated per "
              "query), symbolic index, value and prior contents, storage object of exactly the occupied slots, plus LASTONLY cells with "
              "the index pinned to the last element of arrays of 1..9 elements (footprint against the end of the object); sorted ops: "
              "sorted arrays of 0..5 elements, one operation, compared with a reference multiset",
    "outside": "widths 33..64; arrays longer than 9 (5 for sorted ops); footprint toward lower addresses for interior elements; "
               "compact instantiations with an explicit slot type in which a value can fit in one slot (outside the documented use of "
               "PACK_STORAGE_COMPACT: 'we can never store a packed value inside just one slot')",
    "assumptions": ["element j occupies bits [j*bits,(j+1)*bits) of the slot stream, bit k = bit k%slot of slot k/slot (right to left)"],
}

UINT = {8: "uint8_t", 16: "uint16_t", 32: "uint32_t", 64: "uint64_t"}


def two_slot_ok(bits, slot):
    return bits <= slot + gcd(bits, slot)


def compact_default_slot(bits):
    return 8 if bits <= 16 else 16


def insts(tier):
    """yield (name, defs)"""
    out = []
    for bits in range(1, 33):
        for slot in (8, 16, 32, 64):
            if not two_slot_ok(bits, slot):
                continue
            out.append(("b%d-s%d-default" % (bits, slot), {"BITS": bits, "SLOTBITS": slot}))
            # explicit-slot compact: documented domain = a value never fits in one slot
            if bits > slot:
                out.append(("b%d-s%d-compact" % (bits, slot), {"BITS": bits, "SLOTBITS": slot, "COMPACT": 1}))
            # micro promotion: next wider type than the slot, and uint64_t
            if slot < 64:
                mt = UINT[slot * 2]
                if (slot * 2) >= bits:
                    out.append(("b%d-s%d-micro%d" % (bits, slot, slot * 2), {"BITS": bits, "SLOTBITS": slot, "MICRO": mt}))
            out.append(("b%d-s%d-micro64" % (bits, slot), {"BITS": bits, "SLOTBITS": slot, "MICRO": "uint64_t"}))
        cs = compact_default_slot(bits)
        if two_slot_ok(bits, cs):
            out.append(("b%d-compactdef" % bits, {"BITS": bits, "SLOTBITS": cs, "COMPACT": 1, "COMPACTDEF": 1}))
    # the two instantiations that exist in the tree, verbatim
    out.append(("tree-dimension-12", {"BITS": 12, "SLOTBITS": 8, "MICRO": "uint16_t", "MAXEL": 3700}))
    out.append(("tree-test-12-compact", {"BITS": 12, "SLOTBITS": 8, "COMPACT": 1, "COMPACTDEF": 1, "MICRO": "uint64_t"}))
    out.append(("tree-test-12", {"BITS": 12, "SLOTBITS": 32, "MICRO": "uint32_t"}))
    return out


OPS = {0: "set", 1: "incr", 2: "half", 3: "insertsorted", 4: "insert", 5: "delete", 6: "deletemember", 7: "member"}


def queries(tier):
    qs = []
    all_insts = insts(tier)
    if tier == "quick":
        # every instantiation: Set/Get isolation with a symbolic index (9 elements) + last-element footprint
        for nm, d in all_insts:
            dd = dict(d, OP=0, NEL=9)
            qs.append(Query("%s-set-n9" % nm, "packed/packed.c", [], defs=dd, checks="mem", unwind=70, timeout=600))
        sub = [i for i in all_insts if i[0].startswith("tree-") or i[1]["BITS"] in (1, 3, 7, 8, 12, 13, 17, 24, 31, 32)]
        for nm, d in sub:
            if "micro" in nm and not nm.startswith("tree-") and d["BITS"] not in (12, 13):
                continue
            qs.append(Query("%s-set-last-n1" % nm, "packed/packed.c", [], defs=dict(d, OP=0, NEL=1, LASTONLY=1), checks="mem", unwind=70, timeout=600))
            for op in (1, 2):
                qs.append(Query("%s-%s-n3" % (nm, OPS[op]), "packed/packed.c", [], defs=dict(d, OP=op, NEL=3), checks="mem", unwind=70, timeout=600))
        for nm, d in all_insts:
            if nm.startswith("tree-") or (d["BITS"] in (3, 12, 13, 32) and "micro" not in nm):
                for op in (3, 4, 5, 6, 7):
                    qs.append(Query("%s-%s-n3" % (nm, OPS[op]), "packed/packed.c", [], defs=dict(d, OP=op, NEL=3), checks="mem", unwind=70, timeout=600))
    else:
        for nm, d in all_insts:
            heavy = nm.startswith("tree-") or "micro" not in nm
            qs.append(Query("%s-set-n9" % nm, "packed/packed.c", [], defs=dict(d, OP=0, NEL=9), checks="mem", unwind=70, timeout=1800))
            for nel in (range(1, 10) if heavy else (1, 9)):
                qs.append(Query("%s-set-last-n%d" % (nm, nel), "packed/packed.c", [], defs=dict(d, OP=0, NEL=nel, LASTONLY=1), checks="mem",
                                unwind=70, timeout=1800))
            for op in (1, 2):
                qs.append(Query("%s-%s-n9" % (nm, OPS[op]), "packed/packed.c", [], defs=dict(d, OP=op, NEL=9), checks="mem", unwind=70, timeout=1800))
            # sorted operations: every instantiation of a spread of widths (a 24-bit / 16-bit-slot compact insert-sorted query
            # ran for an hour without a verdict, so the thorough tier does not take the full cross product here)
            if heavy and (nm.startswith("tree-") or d["BITS"] in (1, 2, 3, 5, 7, 8, 9, 12, 13, 16, 17, 20, 31, 32)):
                for op in (3, 4, 5, 6, 7):
                    for nel in (0, 1, 2, 3, 4, 5):
                        if nel == 0 and op in (5,):
                            continue
                        if nel >= 4 and not (nm.startswith("tree-") or d["BITS"] in (1, 3, 8, 12, 13, 17, 32)):
                            continue
                        qs.append(Query("%s-%s-n%d" % (nm, OPS[op], nel), "packed/packed.c", [], defs=dict(d, OP=op, NEL=nel), checks="mem",
                                        unwind=70, timeout=3600))
    return qs
