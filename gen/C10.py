from vlib.core import Query

META = {
    "bounds": "header: all (rows, cols) in 2^64 x 2^64 (all 72 width pairs), packed form for all pairs incl. the unsupported > 32-bit "
              "region; cells: matrices of up to 3 x 5 (quick) / 4 x 6 (thorough) cells behind a header of every width pair (wr 0..8, wc "
              "1..8, symbolic), symbolic cell coordinates incl. row 0, last row and last column, symbolic prior contents of the whole "
              "buffer; entry kinds bit (set true / set false / toggle), unsigned 1..8 bytes, float and double (NaN payloads included, "
              "compared by bit pattern); one write per query (an inductive step: every other byte is shown unchanged, so sequences of "
              "writes compose)",
    "outside": "half-float entries (F16C / NEON intrinsics: not compiled in this build, not modelled by CBMC; they share "
               "getEntryByteOffset with the unsigned 2-byte entry, which is covered); matrices with more than 4 x 6 cells",
    "assumptions": ["a matrix has at least one column (varintDimensionPairDimension documents cols == 0 as an error)",
                    "headers may use any width pair offered by the varintDimensionPair enum, not only the minimal one"],
}

U = ["varintDimension.c", "varintExternal.c"]


def queries(tier):
    qs = [Query("header", "dim/header.c", U, checks="all", unwind=22, timeout=600)]  # checks="all": an over-wide shift is UB that CBMC and x86 resolve differently
    geo = {} if tier == "quick" else {"MAXR": 4, "MAXC": 6}
    to = 900 if tier == "quick" else 2400
    qs.append(Query("cell-bit", "dim/cell.c", U, defs=dict(geo, KIND=0), checks="mem", unwind=160, timeout=to, weight=3))
    for w in range(1, 9):
        qs.append(Query("cell-unsigned-w%d" % w, "dim/cell.c", U, defs=dict(geo, KIND=1, W=w), checks="mem", unwind=260, timeout=to, weight=2 + w))
    qs.append(Query("cell-float", "dim/cell.c", U, defs=dict(geo, KIND=2), checks="mem", unwind=260, timeout=to, weight=4))
    qs.append(Query("cell-double", "dim/cell.c", U, defs=dict(geo, KIND=3), checks="mem", unwind=260, timeout=to, weight=8))
    return qs
