from vlib.core import Query

META = {
    "bounds": "3-word stream, every bit offset 0..3W-1 (covers every offset mod word size, both the single-word and the split path, "
              "and ranges ending exactly at the end of the object), every width 1..W, every value, every prior content; word types "
              "uint64_t (default), the documented uint32_t/uint32_t configuration, and uint16_t / uint8_t words; both NDEBUG settings",
    "outside": "streams longer than 3 words (the code addresses words only through offset/W and offset%W); word types other than the two documented",
    "assumptions": ["bit k of the stream is bit (W-1 - k%W) of word k/W (docs/modules/varintBitstream.md 'high-to-low')"],
}


def queries(tier):
    qs = []
    for nd in (True, False):
        sfx = "" if nd else "+asserts"
        for word, cross in ((0, 0), (0, 1), (1, 0), (1, 1), (2, 0)):
            cell = "-w%dx%d" % (word, cross)
            qs.append(Query("set-get-u64" + cell + sfx, "bits/bitstream.c", [], defs={"WORD": word, "CROSS": cross}, ndebug=nd,
                            checks="all", unwind=66, timeout=900))
            qs.append(Query("set-get-u32" + cell + sfx, "bits/bitstream.c", [],
                            defs={"VBITS": "uint32_t", "VBITSVAL": "uint32_t", "WORD": word, "CROSS": cross}, ndebug=nd,
                            checks="all", unwind=66, timeout=900))
        if tier == "thorough":
            qs.append(Query("set-get-u64-unsplit" + sfx, "bits/bitstream.c", [], ndebug=nd, checks="all", unwind=66, timeout=1800))
            qs.append(Query("set-get-u32-unsplit" + sfx, "bits/bitstream.c", [], defs={"VBITS": "uint32_t", "VBITSVAL": "uint32_t"},
                            ndebug=nd, checks="all", unwind=66, timeout=1800))
        # narrower word types (the header is "configurable"; uint16_t / uint8_t words with the matching value type)
        for wt, tag in (("uint16_t", "u16"), ("uint8_t", "u8")):
            qs.append(Query("set-get-%s%s" % (tag, sfx), "bits/bitstream.c", [], defs={"VBITS": wt, "VBITSVAL": wt}, ndebug=nd, checks="all",
                            unwind=66, timeout=900))
        qs.append(Query("signed-u64" + sfx, "bits/bitstream_signed.c", [], ndebug=nd, checks="all", timeout=900))
        qs.append(Query("signed-u32" + sfx, "bits/bitstream_signed.c", [], defs={"VBITS": "uint32_t", "VBITSVAL": "uint32_t", "WORD32": 1},
                        ndebug=nd, checks="all", timeout=900))
    return qs
