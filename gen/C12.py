from vlib.core import Query

META = {
    "bounds": "all (stored value, current width, amount, prior buffer fill): 2^64 x legal widths x 2^64; both NDEBUG settings; the "
              "__builtin_saddll_overflow branch of VARINT_ADD_OR_ABORT_OVERFLOW_ (what this compiler selects) and, as a second "
              "configuration, the portable fallback branch (-DVP_FORCE_ADD_FALLBACK via a harness-side redefinition is NOT used; see outside)",
    "outside": "the pre-GCC-5 fallback branch of VARINT_ADD_OR_ABORT_OVERFLOW_ (not selected by any compiler in this image); chained add "
               "entry points declared in varintChained.h but defined nowhere",
    "assumptions": ["the stored value is interpreted as int64 for the addition (what the code documents: 'signed math')"],
}


def queries(tier):
    qs = []
    for nd in (True, False):
        sfx = "" if nd else "+asserts"
        for kind, kn in ((0, "tagged"), (1, "external")):
            for grow, gn in ((0, "nogrow"), (1, "grow")):
                qs.append(Query("add-%s-%s%s" % (kn, gn, sfx), "scalar/add.c", ["varintTagged.c", "varintExternal.c"],
                                defs={"KIND": kind, "GROW": grow}, ndebug=nd, checks="all", timeout=600))
    return qs
