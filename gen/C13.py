from gen.arrays import codec_queries

META = {
    "bounds": "valid encodings produced by the real encoder from n symbolic elements (n <= 3-5), decoded into an output OBJECT of "
              "exactly cap elements (cap = n-1 in quick, every cap in 0..n-1 in thorough): a write past capacity is a CBMC bounds "
              "failure; result 0 (FOR, batch FOR, group, dict, RLE header format) or a correct prefix (RLE, Elias, BP128 x4) as "
              "documented; adaptive under each forced encoding",
    "outside": "capacities for arrays longer than 5 (9 for scaled BP128)",
    "assumptions": ["as C02"],
}


def queries(tier):
    from gen import adaptive
    return codec_queries(13, tier) + adaptive.queries(13, tier)
