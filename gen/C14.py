from vlib.core import Query

META = {}

DICT_UNITS = ["varintDict.c", "varintTagged.c", "varintExternal.c"]


def dict_queries(tier):
    qs = []
    Ls = (0, 1, 2, 3, 6, 12) if tier == "quick" else range(0, 13)
    for L in Ls:
        for into, nm in ((1, "into"), (0, "decode")):
            rest = max(L - 1, 0)         # dictSize >= L-1 cannot be followed by a count and an index
            fn = "varintDictDecodeInto" if into else "varintDictDecode"
            for ds in range(0, rest + 2):
                if L == 0 and ds > 0:
                    continue
                cls = "ds%d" % ds if ds < rest else ("big" if ds == rest else "multi")
                # per-loop bounds derived from L (termination). Entry loop .0: the announced size; "big": one entry per
                # remaining byte; "multi": size field >= 2 bytes. Index loop .4: bytes left after size, entries and count.
                # .1-.3 are the index-width loops (<= 3 bytes, global bound).
                if ds < rest:
                    b0, b4 = ds + 1, max(L - 1 - ds, 2)
                elif ds == rest:
                    b0, b4 = max(L, 1), 2
                else:
                    b0, b4 = max(L - 1, 1), max(L - 3, 2)
                uw = {"memcpy.0": 9, "harness.0": L + 1, fn + ".0": b0, fn + ".4": b4}
                qs.append(Query("dict-%s-L%d-%s" % (nm, L, cls), "bounded/dict.c", DICT_UNITS,
                                defs={"L": L, "INTO": into, "CAP": 4, "DS": ds, "DSREST": rest},
                                unwind=5, unwindset=uw, timeout=600, weight=1 + L))
    for valid, nm in ((1, "into"), (2, "decode")):
        qs.append(Query("dict-valid-%s-n2" % nm, "bounded/dict.c", DICT_UNITS, defs={"VALID": valid, "NV": 2},
                        stubs=("mem", "qsort"), unwind=10, unwindset={"memcpy.0": 17, "harness.0": 23}, timeout=900, weight=20))
    return qs


def elias_queries(tier):
    qs = []
    Ls = (0, 1, 2) if tier == "quick" else (0, 1, 2, 3)
    for delta, nm in ((0, "gamma"), (1, "delta")):
        arr = "varintElias%sDecodeArray.0" % ("Delta" if delta else "Gamma")
        for L in Ls:
            nb = min(8 * L, 64)
            hl = {"harness.0": L + 1, "harness.1": 5, "harness.2": 8 * L + 1, "harness.3": L + 1, "harness.4": 5}
            # (a) bounds derived from L (termination within the declared size): a zero run can consume at most 8L bits plus the
            #     iteration that finds the input exhausted; a payload has at most 8L bits; at most CAP values.
            for ni in (0, 1):
                if ni and (L == 0 or (tier == "quick" and L == 2 and delta) or L == 3):
                    continue    # delta L=2 bit-exact: ~2 min, thorough only; L=3 bit-exact: no verdict within the budget
                defs = {"L": L, "CAP": 4, "DELTA": delta}
                if ni:
                    defs["NI"] = 1
                uw = dict(hl); uw.update({"varintEliasGammaDecode.0": nb + 2, "varintBitReaderRead.0": max(nb + 1, 2), arr: 6})
                qs.append(Query("elias-%s-L%d%s" % (nm, L, "-bitexact" if ni else ""), "bounded/elias.c", ["varintElias.c"],
                                defs=defs, unwind=4, unwindset=uw, timeout=900, weight=(1 + L) * (2 if ni else 1) * 3))
            # (b) one value with the bounds the code itself promises (zero run stops after 64 zeros, payload <= 64 bits): gives a
            #     memory verdict even on a tree whose loops ignore the declared size
            uw = dict(hl); uw.update({"varintEliasGammaDecode.0": 66, "varintBitReaderRead.0": 66, arr: 3})
            qs.append(Query("elias-%s-L%d-cap1-codebounds" % (nm, L), "bounded/elias.c", ["varintElias.c"],
                            defs={"L": L, "CAP": 1, "DELTA": delta}, unwind=4, unwindset=uw, timeout=900, weight=6))
        uw = {"memset.0": 40, "varintBitWriterWrite.0": 10, "varintBitReaderRead.0": 10, "varintEliasGammaEncode.0": 9,
              "varintEliasGammaDecode.0": 10, "ref_log2.0": 64, "floorLog2.0": 9,
              "varintElias%sEncodeArray.0" % ("Delta" if delta else "Gamma"): 4, arr: 4}
        qs.append(Query("elias-%s-valid-n2" % nm, "bounded/elias.c", ["varintElias.c"], defs={"VALID": 1, "NV": 2, "VMAX": 255, "DELTA": delta},
                        unwind=4, unwindset=uw, timeout=900, weight=10))
    return qs


def rle_queries(tier):
    qs = []
    Ls = (0, 1, 2, 3, 6, 12) if tier == "quick" else range(0, 13)
    for L in Ls:
        qs.append(Query("rle-runcount-L%d" % L, "bounded/rle.c", ["varintRLE.c", "varintTagged.c"], defs={"L": L},
                        unwind=10, unwindset={"varintRLEGetRunCount.0": L // 2 + 2, "harness.0": L + 1, "memcpy.0": 9}, timeout=600,
                        weight=1 + L))
    qs.append(Query("rle-runcount-valid-n3", "bounded/rle.c", ["varintRLE.c", "varintTagged.c"], defs={"VALID": 1, "NV": 3},
                    unwind=10, unwindset={"harness.0": 41, "memcpy.0": 9}, timeout=600, weight=8))
    return qs


SCALED = {"VARINT_VERIF_BITMAP_MAX_VALUE": 64, "VARINT_VERIF_BITMAP_ARRAY_MAX": 4, "VARINT_VERIF_BITMAP_BITMAP_SIZE": 8,
          "VARINT_VERIF_BITMAP_DEFAULT_ARRAY_CAPACITY": 2}


def bitmap_queries(tier):
    qs = []
    # L <= 12 as for the other decoders, plus 13 and 17 so that RUNS input with 1 and 2 runs (9 + 4k bytes) has an accept path
    Ls = (0, 1, 3, 4, 5, 6, 7, 9, 12, 13, 17) if tier == "quick" else range(0, 18)
    tn = {0: "array", 1: "bitmap", 2: "runs", 3: "unknown"}
    for L in Ls:
        for t in (0, 1, 2, 3):
            if L == 0 and t > 0:
                continue
            uw = {"memcpy.0": max(L, 5) + 1, "harness.0": L + 1, "varintBitmapContains.0": max((L - 9) // 4, 0) + 2,
                  "binarySearch_.0": 5}
            qs.append(Query("bitmap-%s-L%d" % (tn[t], L), "bounded/bitmap.c", ["varintBitmap.c"], defs={"L": L, "TYPE": t},
                            unwind=4, unwindset=uw, timeout=600, weight=1 + L // 4))
    # sub-regions with a small declared count / a fully unwound 8 KiB copy: redundant on a correct tree, but they end in a memory
    # verdict (not an exceeded loop bound) on a tree that trusts the declared sizes
    for t, L in ((0, 5), (0, 8), (2, 9), (2, 12)):
        uw = {"memcpy.0": 4 * 4 + 1, "harness.0": L + 1, "varintBitmapContains.0": 6, "binarySearch_.0": 5}
        qs.append(Query("bitmap-%s-L%d-claim4" % (tn[t], L), "bounded/bitmap.c", ["varintBitmap.c"],
                        defs={"L": L, "TYPE": t, "CLAIM_MAX": 4}, unwind=4, unwindset=uw, timeout=600, weight=2))
    qs.append(Query("bitmap-bitmap-L12-fullcopy", "bounded/bitmap.c", ["varintBitmap.c"], defs={"L": 12, "TYPE": 1}, unwind=4,
                    unwindset={"memcpy.0": 8193, "harness.0": 13}, timeout=600, weight=4))
    # BITMAP-typed input with the scaled container constants of the verification hook (universe 64, 8-byte bitmap): exact accept
    # path at L = 13.  On a tree without the hook the macros are ignored and these are the real-constant queries again.
    for L in ((12, 13) if tier == "quick" else (5, 6, 12, 13, 14)):
        d = {"L": L, "TYPE": 1}; d.update(SCALED)
        qs.append(Query("bitmap-bitmap-scaled-L%d" % L, "bounded/bitmap.c", ["varintBitmap.c"], defs=d, unwind=4,
                        unwindset={"memcpy.0": L + 1, "harness.0": L + 1}, timeout=600, weight=2))
    qs.append(Query("bitmap-valid-n2", "bounded/bitmap.c", ["varintBitmap.c"], defs={"VALID": 1, "NV": 2}, unwind=4,
                    unwindset={"memcpy.0": 10, "memmove.0": 5, "memmove.1": 5, "harness.0": 3, "harness.1": 10, "binarySearch_.0": 4},
                    timeout=600, weight=3))
    return qs


def tagged_queries(tier):
    qs = []
    for L in range(0, 13):
        qs.append(Query("tagged-get-L%d" % L, "bounded/tagged.c", ["varintTagged.c"], defs={"L": L}, unwind=10,
                        unwindset={"harness.0": L + 1, "memcpy.0": 9}, timeout=300))
    for W in range(1, 10):
        qs.append(Query("tagged-get-valid-w%d" % W, "bounded/tagged.c", ["varintTagged.c"], defs={"VALID": 1, "W": W}, unwind=10,
                        unwindset={"memcpy.0": 9}, timeout=300))
    return qs


def queries(tier):
    return dict_queries(tier) + elias_queries(tier) + rle_queries(tier) + bitmap_queries(tier) + tagged_queries(tier)
