"""C14: length-taking decoders stay inside their declared input.

Harnesses: harness/bounded/{tagged,dict,elias,rle,bitmap}.c (+ refdec.h).  Every query hands the decoder an object of
EXACTLY L bytes (L a constant per query) with arbitrary symbolic contents and the declared length L (Elias: a symbolic bit
count <= 8L; tagged: a symbolic n <= L), plus "valid" queries that push the output of the REAL encoder (and every strict
prefix of it) through the same decoder."""
from vlib.core import Query

META = {
    "bounds": "input objects of exactly L bytes, every content: tagged L=0..12 (n symbolic <= L) and every truncation of every valid "
              "1..9-byte encoding; dictionary decoders (DecodeInto capacity 4 [thorough: also 1 and 10], Decode) L in {0,1,2,3,6,12} "
              "quick / 0..12 thorough, split exhaustively by the first byte of the size field; RLE run counter same L quick / 0..24 thorough; bitmap "
              "deserialiser L in {0,1,3,4,5,6,7,9,12,13,17} quick / 0..17 thorough x container type {ARRAY, BITMAP, RUNS, other} at "
              "the real constants (8 KiB BITMAP request served by a 128-byte surrogate object; with the scaled hook constants, if "
              "the tree has the hook, BITMAP L=13 is the exact accept path); Elias gamma/delta L=0..2 quick / 0..3 thorough, srcBits "
              "symbolic <= 8L, output capacity 4 (and 1), bit-exact non-interference gamma L=1..2, delta L=1 quick / both L=1..3 thorough. Valid-encoding "
              "round trips + all strict prefixes: dict n=2 (any 64-bit values) [thorough: + n=3 values <= 67823], RLE n=3 (any values) "
              "[thorough: + n=4 values <= 240], Elias n=2 (values 1..255 "
              "[thorough: n=2 up to 65535 and n=3 up to 255]), bitmap 2 members, tagged all widths. Per-loop unwinding bounds derived from L "
              "(--unwinding-assertions = termination within the declared size). Allocation: size-dispatch allocator, every request "
              "must be <= 8 MiB (dictionary) / 128 KiB (bitmap). NDEBUG on; Elias/RLE also with library asserts enabled.",
    "outside": "inputs longer than the listed L (the parsers keep no state beyond a cursor, so every check is reached with short inputs, "
               "but that is an argument, not a verdict); BITMAP-typed accept path at the real 8192-byte size (only the reject path "
               "L<=17 and the scaled accept path); consistency of an accepted bitmap's contents (sortedness, cardinality vs payload) "
               "is not part of this property; callers that pass a length larger than the buffer (varintAdaptive passes 1 MiB).",
    "assumptions": ["CBMC 6.11 C semantics, little-endian x86_64 data model",
                    "byte-loop memcpy/memmove/memset stubs; insertion-sort qsort stub (valid-mode dictionary encoder only)",
                    "size-dispatch allocator: requests within the bound get an object of exactly the requested size, larger "
                    "requests (<= cap, asserted) a 128-byte surrogate; allocation never fails",
                    "format facts used by the oracles: tagged varint lengths/values from the header comment of varintTagged.c; a "
                    "dictionary stream is [size][entries][count][indices] with every field >= 1 byte; an RLE run is two varints; "
                    "Elias code lengths from the definition of the codes; bitmap wire layout type(1) cardinality(4) payload"],
    "explanation": "Oracles: CBMC pointer/bounds checks on exact-size input, output and allocator objects (over-read at/after L, "
                   "over-write of the output, read outside the decoder's own allocation), unwinding assertions with bounds derived "
                   "from L, P:alloc_bounded in the allocator stub, leak counter, and documented error results: tagged cut short => 0; "
                   "dictionary / bitmap prefix of a valid encoding => 0 / NULL; RLE / Elias prefix => a short count, never an extra "
                   "or wrong value; Elias additionally bit-exact (two inputs equal on the first srcBits bits decode identically).",
}

DICT_UNITS = ["varintDict.c", "varintTagged.c", "varintExternal.c"]


def dict_big_queries(tier):
    """semi-concrete: 257 literal dictionary entries (index width 2), symbolic 9-byte count varint and index tail"""
    qs = []
    units = ["varintDict.c", "varintTagged.c", "varintExternal.c"]
    for into, nm in ((0, "decode"), (1, "into")):
        for tail in ((4,) if tier == "quick" else (0, 1, 4, 6)):
            qs.append(Query("dict-big257-%s-tail%d" % (nm, tail), "bounded/dict_big.c", units, defs={"INTO": into, "TAIL": tail}, checks="mem",
                            unwind=280, unwindset={}, unwind_fn={"varintDictDecode": [["i < dictSize", 259], ["i < count", 8], ["", 9]],
                                                                 "varintDictDecodeInto": [["i < dictSize", 259], ["i < count", 8], ["", 9]],
                                                                 "dictGetBounded": 9, "varintTaggedGet": 9},
                            timeout=900, weight=6, extra=["--max-field-sensitivity-array-size", "300"]))
    return qs


def dict_queries(tier):
    qs = []
    quick = tier == "quick"
    Ls = (0, 1, 2, 3, 6, 12) if quick else range(0, 13)
    for L in Ls:
        for into, nm in ((1, "into"), (0, "decode")):
            caps = (4,) if (quick or not into or L not in (6, 12)) else (4, 1, 10)
            rest = max(L - 1, 0)         # a single-byte size >= L-1 cannot be followed by a count and an index
            fn = "varintDictDecodeInto" if into else "varintDictDecode"
            units = DICT_UNITS if into else DICT_UNITS[::-1]   # (order only matters for the driver's function listing key)
            for cap in caps:
                for ds in list(range(0, rest + 1)) + [241, 249, 250]:
                    if L == 0 and ds > 0:
                        continue
                    cls = "ds%d" % ds if ds < rest else ("big" if ds == rest else {241: "size2B", 249: "size3B", 250: "size4to9B"}[ds])
                    # per-loop bounds derived from L (termination). Entry loop .0: the announced size; "big": one entry per
                    # remaining byte; "sizeNB": the size field has >= N bytes. Index loop .4: bytes left after size, entries and
                    # count. .1-.3 are the index-width loops (<= 3 bytes, global bound 5).
                    if ds < rest:
                        b0, b4 = ds + 1, max(L - 1 - ds, 2)
                    elif ds == rest:
                        b0, b4 = max(L, 1), 2
                    else:
                        w = {241: 2, 249: 3, 250: 4}[ds]
                        b0, b4 = max(L - w + 1, 1), max(L - w - 1, 2)
                    uw = {"memcpy.0": 9, "harness.0": L + 1, fn + ".0": b0, fn + ".4": b4}
                    heavy = L >= 10 and (ds >= rest or ds <= 3)
                    qs.append(Query("dict-%s-L%d-%s%s" % (nm, L, cls, "" if cap == 4 else "-cap%d" % cap), "bounded/dict.c", units,
                                    defs={"L": L, "INTO": into, "CAP": cap, "DS": ds, "DSREST": rest},
                                    unwind=5, unwindset=uw, timeout=900, weight=(3 if heavy else 1) * (1 + L) * (1 if into else 2)))
    for valid, nm in ((1, "into"), (2, "decode")):
        vu = [DICT_UNITS[1], DICT_UNITS[0], DICT_UNITS[2]] if valid == 1 else [DICT_UNITS[1], DICT_UNITS[2], DICT_UNITS[0]]
        for part, pn in ((0, "exact"), (1, "truncated")):
            qs.append(Query("dict-valid-%s-n2-%s" % (nm, pn), "bounded/dict.c", vu, defs={"VALID": valid, "NV": 2, "PART": part},
                            stubs=("mem", "qsort"), unwind=10, unwindset={"memcpy.0": 17, "harness.0": 23}, timeout=1200, weight=80))
            if not quick:   # three values of 1..3 encoded bytes each
                qs.append(Query("dict-valid-%s-n3-3byte-%s" % (nm, pn), "bounded/dict.c", vu,
                                defs={"VALID": valid, "NV": 3, "PART": part, "VMAX": 67823}, stubs=("mem", "qsort"), unwind=10,
                                unwindset={"memcpy.0": 25, "harness.1": 33}, timeout=1800, weight=80))
    return qs


def elias_queries(tier):
    qs = []
    quick = tier == "quick"
    Ls = (0, 1, 2) if quick else (0, 1, 2, 3)
    for delta, nm in ((0, "gamma"), (1, "delta")):
        arr = "varintElias%sDecodeArray.0" % ("Delta" if delta else "Gamma")
        enc = "varintElias%sEncodeArray.0" % ("Delta" if delta else "Gamma")
        # the extra units are unused (removed by --drop-unused-functions); they only make the driver's function-listing key
        # (harness, units) distinct per variant so that the evidence lists the delta / valid-mode functions too
        eu = ["varintElias.c"] + (["varintTagged.c"] if delta else [])
        for L in Ls:
            nb = min(8 * L, 64)
            hl = {"harness.0": L + 1, "harness.1": 5, "harness.2": 8 * L + 1, "harness.3": L + 1, "harness.4": 5}
            # (a) bounds derived from L (termination within the declared size): a zero run can consume at most 8L bits plus the
            #     iteration that finds the input exhausted; a payload has at most 8L bits; at most CAP values.
            for ni in (0, 1):
                if ni and (L == 0 or (quick and L == 2 and delta)):
                    continue    # bit-exact: delta L=2 ~2-3 min, gamma L=3 ~4 min, delta L=3 ~12 min: thorough only
                for nd in (True, False):
                    if not nd and (ni or (quick and L != 1)):
                        continue
                    defs = {"L": L, "CAP": 4, "DELTA": delta}
                    if ni:
                        defs["NI"] = 1
                    uw = dict(hl)
                    uw.update({"varintEliasGammaDecode.0": nb + 2, "varintBitReaderRead.0": max(nb + 1, 2), arr: 6})
                    qs.append(Query("elias-%s-L%d%s%s" % (nm, L, "-bitexact" if ni else "", "" if nd else "+asserts"), "bounded/elias.c",
                                    eu, defs=defs, unwind=4, unwindset=uw, timeout=1800, ndebug=nd,
                                    weight=(1 + L) * (1 + L) * (4 if ni else 1) * (3 if delta else 1) * (20 if ni and L == 3 else 1)))
            # (b) one value with the bounds the code itself promises (zero run stops after 64 zeros, payload <= 64 bits): gives a
            #     memory verdict even on a tree whose loops ignore the declared size
            uw = dict(hl)
            uw.update({"varintEliasGammaDecode.0": 66, "varintBitReaderRead.0": 66, arr: 3})
            qs.append(Query("elias-%s-L%d-cap1-codebounds" % (nm, L), "bounded/elias.c", eu,
                            defs={"L": L, "CAP": 1, "DELTA": delta}, unwind=4, unwindset=uw, timeout=900, weight=6))
        vq = [("n2", 2, 255, 10)]
        if not quick:
            vq += [("n3", 3, 255, 10), ("n2-v16", 2, 65535, 18)]     # (n=2 up to 2^32-1: gamma 19 min, delta > 30 min: not run)
        for tag, nv, vmax, lb in vq:
            # loop bounds from VMAX: values < 2^(lb-2) -> zero runs / payloads / log loops below lb
            uw = {"memset.0": (nv * 127 + 7) // 8 + 1, "varintBitWriterWrite.0": lb, "varintBitReaderRead.0": lb,
                  "varintEliasGammaEncode.0": lb, "varintEliasGammaDecode.0": lb, "ref_log2.0": 64, "floorLog2.0": lb,
                  enc: nv + 2, arr: nv + 2}
            qs.append(Query("elias-%s-valid-%s" % (nm, tag), "bounded/elias.c", eu + ["varintExternal.c"],
                            defs={"VALID": 1, "NV": nv, "VMAX": vmax, "DELTA": delta}, unwind=nv + 2, unwindset=uw, timeout=1800,
                            weight=12 if tag == "n2" else 60))
    return qs


def rle_queries(tier):
    qs = []
    quick = tier == "quick"
    Ls = (0, 1, 2, 3, 6, 12) if quick else range(0, 25)
    for L in Ls:
        for nd in (True, False):
            if not nd and quick and L != 3:
                continue
            qs.append(Query("rle-runcount-L%d%s" % (L, "" if nd else "+asserts"), "bounded/rle.c", ["varintRLE.c", "varintTagged.c"],
                            defs={"L": L}, unwind=10, ndebug=nd,
                            unwindset={"varintRLEGetRunCount.0": L // 2 + 2, "harness.0": L + 1, "memcpy.0": 9}, timeout=600,
                            weight=1 + L))
    qs.append(Query("rle-runcount-valid-n3", "bounded/rle.c", ["varintTagged.c", "varintRLE.c"], defs={"VALID": 1, "NV": 3},
                    unwind=10, unwindset={"harness.0": 41, "memcpy.0": 9}, timeout=900, weight=40))
    if not quick:
        qs.append(Query("rle-runcount-valid-n4-1byte", "bounded/rle.c", ["varintTagged.c", "varintRLE.c"],
                        defs={"VALID": 1, "NV": 4, "VMAX": 240}, unwind=10, unwindset={"harness.1": 51, "memcpy.0": 9}, timeout=1800,
                        weight=40))
    return qs


# scaled container constants of the verification hook (DESIGN.md 2.7); ignored by a tree without the hook
SCALED = {"VARINT_VERIF_BITMAP_MAX_VALUE": 64, "VARINT_VERIF_BITMAP_ARRAY_MAX": 4, "VARINT_VERIF_BITMAP_BITMAP_SIZE": 8,
          "VARINT_VERIF_BITMAP_DEFAULT_ARRAY_CAPACITY": 2}


# Optional known finding (not opened by this check: proposed-fixes/C14-bitmap.patch repairs it).  If known-findings.json gets an
# open entry with this id, every bitmap query is run as <query> with the region excluded and <query>@KF restricted to it.
KF_BITMAP = "C14_BITMAP_DECODE_TRUSTS_INPUT"


def bitmap_queries(tier):
    qs = _bitmap_queries(tier)
    for q in qs:
        q.kf = [KF_BITMAP]
    return qs


def _bitmap_queries(tier):
    qs = []
    quick = tier == "quick"
    # L <= 12 as for the other decoders, plus 13 and 17 so that RUNS input with 1 and 2 runs (9 + 4k bytes) has an accept path
    Ls = (0, 1, 3, 4, 5, 6, 7, 9, 12, 13, 17) if quick else range(0, 18)
    tn = {0: "array", 1: "bitmap", 2: "runs", 3: "unknown"}
    for L in Ls:
        for t in (0, 1, 2, 3):
            if L == 0 and t > 0:
                continue
            # copy loops: 4-byte header fields and a payload that must fit in L; Contains walks <= (L-9)/4 runs
            uw = {"memcpy.0": max(L, 5) + 1, "harness.0": L + 1, "varintBitmapContains.0": max((L - 9) // 4, 0) + 2,
                  "binarySearch_.0": 5}
            qs.append(Query("bitmap-%s-L%d" % (tn[t] if L else "any", L), "bounded/bitmap.c", ["varintBitmap.c"],
                            defs={"L": L, "TYPE": t}, unwind=4, unwindset=uw, timeout=600, weight=1 + L // 4))
    # sub-regions with a small declared count / a fully unwound 8 KiB copy: redundant on a correct tree, but they end in a memory
    # verdict (not an exceeded loop bound) on a tree that trusts the declared sizes
    for t, L in ((0, 5), (0, 8), (2, 9), (2, 12)):
        uw = {"memcpy.0": 4 * 4 + 1, "harness.0": L + 1, "varintBitmapContains.0": 6, "binarySearch_.0": 5}
        qs.append(Query("bitmap-%s-L%d-claim4" % (tn[t], L), "bounded/bitmap.c", ["varintBitmap.c"],
                        defs={"L": L, "TYPE": t, "CLAIM_MAX": 4}, unwind=4, unwindset=uw, timeout=600, weight=2))
    qs.append(Query("bitmap-bitmap-L12-fullcopy", "bounded/bitmap.c", ["varintBitmap.c"], defs={"L": 12, "TYPE": 1}, unwind=4,
                    unwindset={"memcpy.0": 8193, "harness.0": 13}, timeout=900, weight=10))
    # BITMAP-typed input with the scaled container constants of the verification hook (universe 64, 8-byte bitmap): exact accept
    # path at L = 13.  On a tree without the hook the macros are ignored and these are the real-constant queries again.
    for L in ((12, 13) if quick else (5, 6, 12, 13, 14)):
        d = {"L": L, "TYPE": 1}
        d.update(SCALED)
        qs.append(Query("bitmap-bitmap-scaled-L%d" % L, "bounded/bitmap.c", ["varintBitmap.c"], defs=d, unwind=4,
                        unwindset={"memcpy.0": max(L, 8) + 1, "harness.0": L + 1}, timeout=600, weight=2))
    qs.append(Query("bitmap-valid-n2", "bounded/bitmap.c", ["varintBitmap.c", "varintExternal.c"], defs={"VALID": 1, "NV": 2}, unwind=4,
                    unwindset={"memcpy.0": 10, "memmove.0": 5, "memmove.1": 5, "harness.0": 3, "harness.1": 10, "binarySearch_.0": 4},
                    timeout=600, weight=3))
    return qs


def tagged_queries(tier):
    qs = []
    for L in range(0, 13):
        qs.append(Query("tagged-get-L%d" % L, "bounded/tagged.c", ["varintTagged.c"], defs={"L": L}, unwind=10,
                        unwindset={"harness.0": L + 1, "memcpy.0": 9}, timeout=300))
    for W in range(1, 10):
        qs.append(Query("tagged-get-valid-w%d" % W, "bounded/tagged.c", ["varintTagged.c", "varintExternal.c"],
                        defs={"VALID": 1, "W": W}, unwind=10, unwindset={"memcpy.0": 9}, timeout=300))
    return qs


def queries(tier):
    return dict_queries(tier) + dict_big_queries(tier) + elias_queries(tier) + rle_queries(tier) + bitmap_queries(tier) + tagged_queries(tier)
