from vlib.core import Query, PyQuery, static_objects

META = {
    "bounds": "self-composition at n = 2 symbolic elements per entry point: each call executed twice on equal arguments with "
              "independent residue (output buffers and metadata structs pre-filled with different symbolic bytes; CBMC gives every "
              "uninitialised local and every fresh heap object an independent arbitrary value per run); plus a static-object audit: the "
              "goto symbol table of all library units is enumerated and every static-lifetime object must be const",
    "outside": "n > 2; histories are subsumed (arbitrary residue is a superset of what any earlier call sequence can leave) only for "
               "memory reachable through uninitialised reads, which is what the property is about",
    "assumptions": ["documented in-fields of in/out metadata are equal in both runs: varintFOREncode meta->count != count, "
                    "varintPFORDecode meta->width == 0"],
}

U = ["varintAdaptive.c", "varintDelta.c", "varintFOR.c", "varintPFOR.c", "varintDict.c", "varintBitmap.c", "varintTagged.c", "varintExternal.c",
     "varintRLE.c", "varintElias.c", "varintBP128.c", "varintGroup.c", "varintFloat.c"]
UF = {"varint*": 9, "qsort": 9, "arrayToBitmap_": 9, "bitmapToArray_": 9}
ELIAS = {"floorLog2": 65, "varintBitWriterWrite": 66, "varintBitReaderRead": 66, "varintEliasGammaEncode": 65, "varintEliasGammaDecode": 66}
BP = {"varintBP128*": [["b < bitWidth", 65], ["while \\(value\\)", 65], ["", 4]]}
FL = {"packBits": 70, "unpackBits": 70, "varintFloat*": 9}


ALLU = U + ["varintChained.c", "varintChainedSimple.c", "varintExternalBigEndian.c", "varintDimension.c"]


def audit_statics():
    """no hidden state: every static-lifetime object linked into the library is const (regenerated from the goto symbol table)"""
    objs, err = static_objects(ALLU)
    if objs is None:
        return {"verdict": "inconclusive", "why": err}
    bad = [o for o in objs if not o[1]]
    r = {"n_props": max(1, len(objs)), "n_ok": len(objs) - len(bad), "note": "static-lifetime objects: %s" % ", ".join("%s (%s)" % (o[0], o[3]) for o in objs)}
    if bad:
        r.update(verdict="violated", failed=[{"id": "static." + o[0], "desc": "P:determ.mutable static-lifetime object %s : %s in %s" % (o[0], o[3], o[2]),
                                              "class": "assert", "loc": o[2]} for o in bad],
                 replays=[{"property": "static." + bad[0][0], "desc": "mutable file-scope state", "native": "n/a(static audit)", "confirmed": True}])
    else:
        r.update(verdict="held")
    return r


def tq(name, defs, uf=None, to=1200, weight=5):
    u = dict(UF)
    u.update(uf or {})
    return Query(name, "determ/twice.c", U, defs=dict(defs, N=2), stubs=["mem", "qsort"], checks="none", unwind=100, unwind_fn=u, timeout=to,
                 weight=weight)


def queries(tier):
    qs = [PyQuery("static-objects-audit", audit_statics)]
    names = {0: "delta", 1: "for", 2: "pfor", 3: "dict", 4: "bitmap", 5: "tagged"}
    for f in (0, 1, 2, 3, 5):
        qs.append(tq("adaptive-forced-%s" % names[f], {"CODEC": 20 + f}))
    qs.append(tq("adaptive-analyze-select", {"CODEC": 30}))
    qs.append(tq("for", {"CODEC": 1}))
    qs.append(tq("pfor", {"CODEC": 2}))
    qs.append(tq("rle", {"CODEC": 3}))
    qs.append(tq("elias", {"CODEC": 4}, uf=ELIAS))
    for sub, nm in enumerate(["enc32", "enc64", "delta32", "delta64"]):
        qs.append(tq("bp128-" + nm, {"CODEC": 5, "SUB": sub}, uf=BP))
    qs.append(tq("dict", {"CODEC": 6}))
    qs.append(tq("group-delta", {"CODEC": 7}))
    modes = [(0, 0), (2, 1)] if tier == "quick" else [(p, m) for p in range(4) for m in range(3)]
    for p, m in modes:
        qs.append(tq("float-p%d-m%d" % (p, m), {"CODEC": 8, "FPREC": p, "FMODE": m}, uf=FL, weight=8))
    return qs
