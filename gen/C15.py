from vlib.core import Query, PyQuery, static_objects, external_calls

META = {
    "bounds": "self-composition at n = 2 symbolic elements per entry point: each call executed twice on equal arguments with "
              "independent residue (output buffers and metadata structs pre-filled with different symbolic bytes; CBMC gives every "
              "uninitialised local and every fresh heap object an independent arbitrary value per run); plus a static-object audit: the "
              "goto symbol table of all library units is enumerated and every static-lifetime object must be const",
    "outside": "n > 2; histories are subsumed (arbitrary residue is a superset of what any earlier call sequence can leave) only for "
               "memory reachable through uninitialised reads, which is what the property is about",
    "assumptions": ["documented in-fields of in/out metadata are equal in both runs: varintFOREncode meta->count != count, "
                    "varintPFORDecode meta->width == 0"],
}

U = ["varintAdaptive.c", "varintDelta.c", "varintFOR.c", "varintPFOR.c", "varintDict.c", "varintBitmap.c", "varintTagged.c", "varintExternal.c",
     "varintRLE.c", "varintElias.c", "varintBP128.c", "varintGroup.c", "varintFloat.c"]
UF = {"varint*": 9, "qsort": 9, "arrayToBitmap_": 9, "bitmapToArray_": 9}
ELIAS = {"floorLog2": 65, "varintBitWriterWrite": 66, "varintBitReaderRead": 66, "varintEliasGammaEncode": 65, "varintEliasGammaDecode": 66,
         "varintElias*": 4}
BP = {"varintBP128BitsNeeded32": 34, "varintBP128BitsNeeded64": 66, "varintBP128*": [["b < bitWidth", 65], ["while \\(value\\)", 65], ["", 4]]}
FL = {"packBits": 56, "unpackBits": 56, "varintFloat*": 4}


ALLU = U + ["varintChained.c", "varintChainedSimple.c", "varintExternalBigEndian.c", "varintDimension.c"]


def audit_statics():
    """no hidden state: every static-lifetime object linked into the library is const (regenerated from the goto symbol table)"""
    objs, err = static_objects(ALLU)
    if objs is None:
        return {"verdict": "inconclusive", "why": err}
    bad = [o for o in objs if not o[1]]
    # hidden state can also live behind libc: only pure / allocation / math externals are allowed
    ext, err2 = external_calls(ALLU)
    if ext is None:
        return {"verdict": "inconclusive", "why": err2}
    allowed = {"malloc", "calloc", "realloc", "free", "memcpy", "memmove", "memset", "memcmp", "qsort", "ldexp", "ldexpf", "fabs", "fabsf",
               "frexp", "isnan", "isinf", "__builtin_unreachable", "__builtin_saddll_overflow", "__builtin_clzll", "__builtin_ctzll",
               "__builtin_popcount", "__builtin_popcountll", "__builtin_expect", "assert", "__assert_fail", "abort", "floor", "ceil",
               "log2", "pow", "sqrt", "fmax", "fmin", "strlen", "__builtin_clz", "__builtin_ctz", "__builtin_bswap64", "__builtin_bswap32"}
    hidden = [e for e in ext if e not in allowed]
    bad = bad + [("call:" + e, False, "libc / environment function with hidden state or I/O", "external") for e in hidden]
    r = {"n_props": max(1, len(objs) + len(ext)), "n_ok": len(objs) + len(ext) - len(bad),
         "note": "static-lifetime objects: %s; external functions called: %s" % (", ".join("%s (%s)" % (o[0], o[3]) for o in objs), ", ".join(ext))}
    if bad:
        r.update(verdict="violated", failed=[{"id": "static." + o[0], "desc": "P:determ.mutable static-lifetime object %s : %s in %s" % (o[0], o[3], o[2]),
                                              "class": "assert", "loc": o[2]} for o in bad],
                 replays=[{"property": "static." + bad[0][0], "desc": "mutable file-scope state", "native": "n/a(static audit)", "confirmed": True}])
    else:
        r.update(verdict="held")
    return r


def tq(name, defs, uf=None, to=1200, weight=5, extra=None, mem=12):
    u = dict(uf or {})      # specific bounds first: the first matching key wins
    for k, v in UF.items():
        u.setdefault(k, v)
    return Query(name, "determ/twice.c", U, defs=dict(defs, N=2), stubs=["mem", "qsort"], checks="none", unwind=100, unwind_fn=u, timeout=to,
                 weight=weight, mem_gb=mem, extra=extra if extra is not None else ["--max-field-sensitivity-array-size", "256"])


def queries(tier):
    q = tier == "quick"
    qs = [PyQuery("static-objects-audit", audit_statics)]
    names = {0: "delta", 1: "for", 2: "pfor", 3: "dict", 4: "bitmap", 5: "tagged"}
    for f in ((0, 1, 5) if q else (0, 1, 2, 3, 5)):      # BITMAP arm: outside (DESIGN.md section 3, C06)
        x = tq("adaptive-forced-%s" % names[f], {"CODEC": 20 + f}, to=2400)
        if f == 3:
            x.mem_gb = 28
        qs.append(x)
    qs.append(tq("adaptive-analyze-select", {"CODEC": 30}))
    qs.append(tq("for", {"CODEC": 1}))
    qs.append(tq("rle", {"CODEC": 3}))
    for sub, nm in enumerate(["enc32", "enc64", "delta32", "delta64"]):
        qs.append(tq("bp128-" + nm, {"CODEC": 5, "SUB": sub}, uf=BP))
    # (the Elias array encoders are not run under self-composition: the query does not finish in 40 minutes; they write only
    #  through varintBitWriterInit's memset + OR-ed bits, and C02/C03/C16 decide their output and metadata)
    qs.append(tq("group-delta", {"CODEC": 7}))
    qs.append(tq("pfor", {"CODEC": 2}, to=2400))
    if not q:
        qs.append(tq("dict", {"CODEC": 6}, mem=28, extra=["--no-array-field-sensitivity"], to=2400))
        # two of the twelve precision x mode pairs: one cell takes ~18 minutes and ~25 GB on its own (30 M SAT variables)
        for p, m in [(3, 0), (1, 1)]:
            qs.append(tq("float-p%d-m%d" % (p, m), {"CODEC": 8, "FPREC": p, "FMODE": m}, uf=FL, weight=8, mem=40, to=3600,
                         extra=["--no-array-field-sensitivity"]))
    return qs
