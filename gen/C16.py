from gen.arrays import codec_queries

META = {
    "bounds": "same arrays as C02; ground truth (count, min, max, range, minimal offset width, number of runs, number of blocks and "
              "last-block size, sum of code bits, number of values above the percentile) computed by the harness from the input; every "
              "metadata field and header accessor compared with it and with the encoder's return value",
    "outside": "varintFloatReadMeta / varintFloatAnalyze are declared but defined nowhere (float: only returned sizes, in C07); "
               "varintBP128GetCount is meaningful for the Encode64 format only (the other three formats store no count)",
    "assumptions": ["as C02"],
}


def queries(tier):
    from gen import adaptive
    return codec_queries(16, tier) + adaptive.queries(16, tier)
