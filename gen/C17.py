from vlib.core import Query, PyQuery, static_objects, run_proc, SRC, GUARD
import os, re

META = {
    "bounds": "(a) two threads, all interleavings at shared-access granularity under sequential consistency (CBMC's partial-order "
              "encoding), full 64-bit inputs: tagged, external, chained, chained-simple, split, tagged in-place add on private slots, "
              "packed 12-bit arrays and bitstreams on disjoint storage; each thread's result must equal the sequential result; (b) for "
              "ALL library units (scalar and array codecs): the goto symbol table is enumerated on every run - no mutable "
              "static-lifetime object and no reference to a synchronisation / atomic primitive. A call that neither reads nor writes "
              "mutable file-scope state cannot interfere with a call on disjoint buffers, which is what transfers (a) to any number "
              "of threads and to the array codecs.",
    "outside": "3..16 threads and interleaving-level exploration of the array codecs (no verdict within reach: FOR n=1 with two "
               "threads did not finish in 10 minutes); weak memory models; goto-instrument --race-check crashes in this CBMC build on "
               "array-typed shared objects, so write-write races that leave results unchanged are covered only by (b)",
    "assumptions": ["pthread_create/join as modelled by CBMC", "malloc/free are thread-safe (libc contract) for the codecs that allocate scratch memory"],
}

UNITS = ["varintTagged.c", "varintExternal.c", "varintChained.c", "varintChainedSimple.c"]
ALLU = ["varintAdaptive.c", "varintDelta.c", "varintFOR.c", "varintPFOR.c", "varintDict.c", "varintBitmap.c", "varintTagged.c", "varintExternal.c",
        "varintRLE.c", "varintElias.c", "varintBP128.c", "varintGroup.c", "varintFloat.c", "varintChained.c", "varintChainedSimple.c",
        "varintExternalBigEndian.c", "varintDimension.c"]
FAMS = {0: "tagged", 1: "external", 2: "chained", 3: "chainedsimple", 4: "split", 5: "packed12", 6: "bitstream", 7: "tagged-add"}


def audit():
    objs, err = static_objects(ALLU)
    if objs is None:
        return {"verdict": "inconclusive", "why": err}
    bad = [o for o in objs if not o[1]]
    # synchronisation / atomics referenced from library code?
    hits = []
    for u in ALLU:
        txt = open(os.path.join(SRC, u)).read()
        txt = re.sub(r"/\*.*?\*/", "", txt, flags=re.S)
        if re.search(r"\b(pthread_|__atomic_|__sync_|atomic_|_Atomic|mtx_|thrd_|static\s+_Thread_local|__thread)\w*", txt):
            hits.append(u)
    r = {"n_props": len(objs) + len(ALLU), "n_ok": len(objs) - len(bad) + len(ALLU) - len(hits),
         "note": "static-lifetime objects: %s; units scanned for synchronisation primitives: %d" % (", ".join(o[0] for o in objs), len(ALLU))}
    if bad or hits:
        what = ["mutable static-lifetime object %s : %s (%s)" % (o[0], o[3], o[2]) for o in bad] + ["synchronisation/atomic primitive in %s" % h for h in hits]
        r.update(verdict="violated", failed=[{"id": "audit.%d" % i, "desc": "P:conc." + w, "class": "assert", "loc": ""} for i, w in enumerate(what)],
                 replays=[{"property": "audit", "desc": what[0], "native": "n/a(static audit)", "confirmed": True}])
    else:
        r["verdict"] = "held"
    return r


def queries(tier):
    qs = [PyQuery("shared-state-audit-all-units", audit)]
    for fam, nm in FAMS.items():
        if tier == "quick" and fam in (0, 4, 7):
            continue
        qs.append(Query("two-threads-" + nm, "conc/two.c", UNITS, defs={"FAM": fam}, checks="none", unwind=20, timeout=1200, weight=3,
                        extra=[], note="tsan"))
    return qs
