from vlib.core import Query

META = {
    "bounds": "n = 2 symbolic elements per call; the failing allocation index k is symbolic in 0..KMAX (0 = none) and an assertion "
              "proves that no call performs more than KMAX allocations, so every failure position of every call is covered; APIs: "
              "varintDictEncode, DictDecode, DictDecodeInto, DictBuild on a live dictionary (usable afterwards), varintPFOREncode at "
              "90/95/99, varintAdaptiveEncodeWith / Decode under each forced encoding, varintAdaptiveAnalyze; bitmap Add / Remove / Clone from every array / bitmap / runs "
              "shape at scaled constants (incl. both conversions) with a failing allocation: set value, well-formedness and "
              "capacities backed by memory afterwards (bitmap-oom-* queries)",
    "outside": "varintFloatEncode/Decode under failure (no verdict within budget); n > 2; two simultaneous allocation failures in one call; bitmap AddRange / AddMany / set algebra / Decode under failure; the adaptive BITMAP arm end to end (symbolic execution "
               "through create/add/encode/decode at the real container constants does not finish)",
    "assumptions": ["size-dispatch allocator with failure injection (harness/common/vp_alloc.inc): realloc failure leaves the old block valid (C standard)"],
}

U = ["varintAdaptive.c", "varintDelta.c", "varintFOR.c", "varintPFOR.c", "varintDict.c", "varintBitmap.c", "varintTagged.c", "varintExternal.c",
     "varintFloat.c"]
UF = {"varintFloat*": 4, "varint*": 9, "qsort": 9, "packBits": 56, "unpackBits": 56}
NAMES = {0: "delta", 1: "for", 2: "pfor", 3: "dict", 5: "tagged"}


def fq(name, defs, to=1200, weight=5, kf=()):
    # the adaptive DICT arm forms buffer + 1 MiB (see DESIGN.md C06/C14 note): array-bounds checks only there
    checks = "bounds" if defs.get("FORCE") == 3 and defs.get("API") in (4, 5) else "mem"
    return _fq(name, defs, to, weight, kf, checks)


def _fq(name, defs, to, weight, kf, checks):
    return Query(name, "allocfail/fail.c", U, defs=dict(defs, N=2), stubs=["mem", "qsort"], checks=checks, unwind=100, unwind_fn=UF, timeout=to,
                 weight=weight, mem_gb=(24 if defs.get("API") in (1, 2) else 18 if (defs.get("API") in (0, 8) or defs.get("FORCE") == 3) else 12), kf=list(kf),
                 extra=(["--max-field-sensitivity-array-size", "128"] if defs.get("API") in (4, 5) else ["--no-array-field-sensitivity"]))


def queries(tier):
    q = tier == "quick"
    qs = [fq("dict-encode", {"API": 0}), fq("dict-decode", {"API": 1}), fq("dict-build-live-object", {"API": 2})]
    x = fq("dict-rebuild-grow-live-object", {"API": 8})
    spec = {"realloc": 150, "qsort": 20, "varintDictBuild": 20, "varintDictFind": 8, "binarySearch": 8, "memcpy": 150}
    x.extra = ["--max-field-sensitivity-array-size", "256"]   # literal rebuild set: let symex constant-fold the sort
    x.unwind_fn = dict(list(spec.items()) + [(k, v) for k, v in x.unwind_fn.items() if k not in spec])  # specific keys first
    qs.append(x)
    for thr in ((95,) if q else (90, 95, 99)):
        qs.append(fq("pfor-encode-t%d" % thr, {"API": 3, "THR": thr}))
    for f in ((0, 2, 3) if q else (0, 1, 2, 3, 5)):
        qs.append(fq("adaptive-encodewith-%s" % NAMES[f], {"API": 4, "FORCE": f}))
        qs.append(fq("adaptive-decode-%s" % NAMES[f], {"API": 5, "FORCE": f}))
    qs.append(fq("adaptive-analyze", {"API": 6}))
    # (varintFloatEncode/Decode under allocation failure - harness API 7 - is not registered: one cell needs ~25 GB and did not
    #  return a verdict within 40 minutes, so the float codec is outside this check)
    # bitmap: long-lived object consistent after a failed allocation.  Pre-state = any well-formed container of a concrete
    # shape (scaled constants through the hook; harness/bitmap/step.c OP 20/21/22), one operation (Add / Remove / Clone) whose
    # k-th allocation fails; post: truthful return, set value right, representation well-formed AND every recorded capacity
    # backed by a heap object of that size - i.e. the object is again a pre-state from which C08 proves every operation.
    from gen.C08 import scale, SCALES, arr_shapes, UNITS as BU
    u, amax, dcap = SCALES["s16"]
    sc = scale(u, amax, dcap)
    shapes = arr_shapes(amax, tier) + [("B", {"T1": 1}), ("R1", {"T1": 2, "NR1": 1, "RCAP1": 1}), ("R2", {"T1": 2, "NR1": 2, "RCAP1": 2})]
    for op, nm in ((20, "add"), (21, "remove"), (22, "clone")):
        for n, d in shapes:
            if op == 21 and n.startswith("R"):
                continue    # Remove from a runs container under failure injection: no verdict in 15 minutes (runs -> array/bitmap
                            # conversion with a symbolic failure point); Add and Clone cover the runs shapes
            dd = dict(sc); dd.update(d); dd["OP"] = op; dd["OBS"] = 0
            qs.append(Query("bitmap-oom-%s-%s" % (nm, n), "bitmap/step.c", BU, defs=dd, checks="mem", unwind=u + 3, timeout=900, weight=3))
    return qs
