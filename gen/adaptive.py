from vlib.core import Query

U = ["varintAdaptive.c", "varintDelta.c", "varintFOR.c", "varintPFOR.c", "varintDict.c", "varintBitmap.c", "varintTagged.c", "varintExternal.c"]
NAMES = {0: "delta", 1: "for", 2: "pfor", 3: "dict", 4: "bitmap", 5: "tagged"}
UF = {"varint*": 9, "qsort": 9, "arrayToBitmap_": 9, "bitmapToArray_": 9}


def aq(name, defs, to=1200, weight=6):
    n = defs.get("N", 2)
    dict_arm = defs.get("FORCE") == 3 or defs.get("SEL") == 3
    # selection classes that no array of this length reaches (proved empty by the query itself): at n <= 6 the
    # uniqueness ratio cannot drop below 0.15 (DICT), at n <= 20 the outlier ratio cannot drop below 0.05 (PFOR),
    # and two elements are always sorted one way or the other (FOR needs n >= 3)
    empty_ok = defs.get("MODE") == 1 and defs.get("SEL") in (1, 2, 3)
    q = _aq(name, defs, to, weight, n)
    q.empty_ok = empty_ok
    if dict_arm:
        # the adaptive DICT arm forms buffer + 1 MiB (DESIGN.md section 6, known limit ii), after which CBMC reports every later
        # property UNKNOWN: harness assertions only, and a larger memory cap (19 M SAT variables)
        q.checks = "none"
        q.mem_gb = 36
        q.weight = 30
    return q


def _aq(name, defs, to, weight, n):
    uf = {k: max(v, n + 2) for k, v in UF.items()}
    return Query(name, "adaptive/adaptive.c", U, defs=defs, stubs=["mem", "qsort"], checks="mem", unwind=60 + 30 * n, unwind_fn=uf, timeout=to,
                 weight=weight, extra=["--max-field-sensitivity-array-size", str(max(256, 40 + 30 * n))])


def bitmap_arm(name, defs, to=900):
    """BITMAP arm, split through the explicit byte string (harness/adaptive/bitmap_arm.c)"""
    return Query(name, "adaptive/bitmap_arm.c", U, defs=defs, stubs=["mem", "qsort"], checks="mem", unwind=40, unwind_fn=UF, timeout=to,
                 weight=6, mem_gb=16, extra=["--max-field-sensitivity-array-size", "128"])


def queries(prop, tier):
    """adaptive parts of C03 (prop 3), C13, C16"""
    qs = []
    q = tier == "quick"
    if prop == 3:
        for n in ((2,) if q else (2, 3)):
            for sel in (0, 1, 2, 5):
                qs.append(aq("P3-adaptive-auto-n%d-selects-%s" % (n, NAMES[sel]), {"N": n, "MODE": 1, "SEL": sel, "PROP": 3}))
    if prop == 13:
        # DICT arm: varintDictDecodeInto's capacity check is decided directly (dict-n*-cap* queries); through the adaptive
        # dispatch the memory oracle is unavailable (see aq), so that arm is not repeated here
        for f in (0, 1, 2, 5):
            for n in ((2,) if q else (2, 3)):
                for cap in ((n - 1,) if q else range(0, n)):
                    qs.append(aq("P13-adaptive-forced-%s-n%d-cap%d" % (NAMES[f], n, cap), {"N": n, "MODE": 0, "FORCE": f, "PROP": 13, "CAP": cap}))
    if prop == 13:
        for n in ((3,) if q else (1, 2, 3, 4)):
            for cap in ((n - 1,) if q else range(0, n)):
                qs.append(bitmap_arm("P13-adaptive-bitmap-decode-n%d-cap%d" % (n, cap), {"N": n, "PART": 2, "CAP": cap}))
    if prop == 16:
        qs.append(bitmap_arm("P16-adaptive-bitmap-encode-meta-n3", {"N": 3, "PART": 1}))
        for f in (0, 1, 2, 5):
            qs.append(aq("P16-adaptive-forced-%s-n2" % NAMES[f], {"N": 2, "MODE": 0, "FORCE": f, "PROP": 16}))
    return qs
