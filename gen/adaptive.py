from vlib.core import Query

U = ["varintAdaptive.c", "varintDelta.c", "varintFOR.c", "varintPFOR.c", "varintDict.c", "varintBitmap.c", "varintTagged.c", "varintExternal.c"]
NAMES = {0: "delta", 1: "for", 2: "pfor", 3: "dict", 4: "bitmap", 5: "tagged"}
UF = {"varint*": 9, "qsort": 9, "arrayToBitmap_": 9, "bitmapToArray_": 9}


def aq(name, defs, to=1200, weight=6):
    n = defs.get("N", 2)
    return Query(name, "adaptive/adaptive.c", U, defs=defs, stubs=["mem", "qsort"], checks="mem", unwind=60 + 30 * n, unwind_fn=UF, timeout=to,
                 weight=weight, extra=["--max-field-sensitivity-array-size", "256"])


def queries(prop, tier):
    """adaptive parts of C03 (prop 3), C13, C16"""
    qs = []
    q = tier == "quick"
    if prop == 3:
        for n in ((2,) if q else (2, 3)):
            for sel in (0, 1, 2, 3, 5):
                qs.append(aq("P3-adaptive-auto-n%d-selects-%s" % (n, NAMES[sel]), {"N": n, "MODE": 1, "SEL": sel, "PROP": 3}))
    if prop == 13:
        for f in (0, 1, 2, 3, 5):
            for n in ((2,) if q else (2, 3)):
                for cap in ((n - 1,) if q else range(0, n)):
                    qs.append(aq("P13-adaptive-forced-%s-n%d-cap%d" % (NAMES[f], n, cap), {"N": n, "MODE": 0, "FORCE": f, "PROP": 13, "CAP": cap}))
    if prop == 16:
        for f in (0, 1, 2, 3, 5):
            qs.append(aq("P16-adaptive-forced-%s-n2" % NAMES[f], {"N": 2, "MODE": 0, "FORCE": f, "PROP": 16}))
    return qs
