"""Query builders shared by C02 / C03 / C13 / C16 (array codecs).  One harness per codec
(harness/array/*.c); -DPROP selects the property section, so each property's check compiles
and decides only its own assertions (and its own memory-safety oracle)."""
from vlib.core import Query

T = ["varintTagged.c", "varintExternal.c"]
LIB9 = {"varint*": 9, "qsort": 9}


def for_q(prop, n, w, mw, part=None, cap=None, to=600):
    d = {"N": n, "W": w, "MW": mw, "PROP": prop}
    nm = "for-n%d-W%d-MW%d" % (n, w, mw)
    if part:
        d["PART"] = part; nm += "-part%d" % part
    if cap is not None:
        d["CAP"] = cap; nm += "-cap%d" % cap
    uf = {f: max(n + 1, 2) for f in ["varintFORAnalyze", "varintFOREncode", "varintFORDecode", "varintFORBatchEncode",
                                     "varintFORBatchDecode", "varintFORDecodeBlock", "varintFORBatchAnalyze"]}
    return Query(nm, "array/for.c", ["varintFOR.c"] + T, defs=d, checks="mem", unwind=max(40, 12 + 8 * n), unwind_fn=uf, timeout=to,
                 weight=n)


def for_classes(tier):
    if tier == "quick":
        # every offset width and every tagged width of the minimum at least once
        return [(1, 1), (2, 2), (3, 3), (4, 4), (5, 5), (6, 6), (7, 7), (8, 8), (8, 9), (1, 9), (2, 1)]
    return [(w, mw) for w in range(1, 9) for mw in range(1, 10)]


def pfor_q(prop, n, thr, w=None, mw=None, part=None, kf=(), to=900):
    d = {"N": n, "THR": thr, "PROP": prop}
    nm = "pfor-n%d-t%d" % (n, thr)
    if w:
        d["W"] = w; nm += "-W%d" % w
    if mw:
        d["MW"] = mw; nm += "-MW%d" % mw
    if part:
        d["PART"] = part; nm += "-part%d" % part
    return Query(nm, "array/pfor.c", ["varintPFOR.c"] + T, defs=d, stubs=["mem", "qsort"], checks="mem", unwind=40 + 18 * n,
                 unwind_fn=LIB9, timeout=to, kf=list(kf), weight=3 * n)


def group_q(prop, n, cap=None, to=3600):
    d = {"N": n, "PROP": prop}
    nm = "group-n%d" % n
    if cap is not None:
        d["CAP"] = cap; nm += "-cap%d" % cap
    return Query(nm, "array/group.c", ["varintGroup.c"] + T, defs=d, checks="mem", unwind=20 + 9 * n, unwind_fn={"varint*": max(9, n + 1)},
                 timeout=to, weight=n)


def delta_q(prop, n, signed, to=3600):
    return Query("delta-%s-n%d" % ("signed" if signed else "unsigned", n), "array/delta.c", ["varintDelta.c"] + T,
                 defs={"N": n, "SIGNED": signed, "PROP": prop}, checks="mem", unwind=14 + 9 * n, unwind_fn=LIB9, timeout=to, weight=2 * n)


def rle_q(prop, n, hdr, cap=None, to=3600):
    d = {"N": n, "HDR": hdr, "PROP": prop}
    nm = "rle-%s-n%d" % ("hdr" if hdr else "plain", n)
    if cap is not None:
        d["CAP"] = cap; nm += "-cap%d" % cap
    return Query(nm, "array/rle.c", ["varintRLE.c"] + T, defs=d, checks="mem", unwind=24 + 10 * n, unwind_fn=LIB9, timeout=to, weight=3 * n)


def rle_repl_q(prop, n, repl, hdr, to=900):
    """run-length boundary instances: repl copies of one symbolic value + (n - repl) copies of another"""
    d = {"N": n, "REPL": repl, "HDR": hdr, "PROP": prop}
    if prop == 13:
        d["CAP"] = n - 1
    return Query("rle-%s-run%d-of-%d" % ("hdr" if hdr else "plain", repl, n), "array/rle.c", ["varintRLE.c"] + T, defs=d, checks="mem",
                 unwind=n + 3, unwind_fn={"varintTagged*": 9, "ref_tagged_len": 9}, timeout=to, weight=4,
                 extra=["--max-field-sensitivity-array-size", "300"])


def dict_q(prop, n, cap=None, to=3600):
    d = {"N": n, "PROP": prop}
    nm = "dict-n%d" % n
    if cap is not None:
        d["CAP"] = cap; nm += "-cap%d" % cap
    return Query(nm, "array/dict.c", ["varintDict.c"] + T, defs=d, stubs=["mem", "qsort"], checks="mem", unwind=16 + 10 * n, unwind_fn=LIB9,
                 timeout=to, weight=4 * n)


def dictw_q(prop, D, m=2, to=1800):
    """index-width agreement between varintDictBuild and both decoders at a literal dictionary of D entries"""
    return Query("dict-width-D%d-m%d" % (D, m), "array/dict_width.c", ["varintDict.c"] + T, defs={"D": D, "M": m, "PROP": prop},
                 stubs=["mem64", "qsort"], checks="mem", unwind=2 * D + 16, unwind_fn={"varintDict*": D + 3, "qsort": D + 3, "varintTagged*": 9, "ref_tagged_len": 9, "ref_bytes": 9,
                                                                                "binarySearch": 11, "varintExternal*": 9, "memcpy": 8 * D + 2, "realloc": 8 * D + 2, "memset": 8 * D + 2},
                 timeout=to, weight=6, extra=["--max-field-sensitivity-array-size", str(8 * D + 100)])


ELIAS_UW = {"floorLog2": 65, "varintBitWriterWrite": 66, "varintBitReaderRead": 66, "varintEliasGammaEncode": 65,
            "varintEliasGammaDecode": 66, "lg2": 65, "memset": 60, "varintElias*": 6}


def elias_q(prop, code, n, lgs=(), cap=None, to=3600):
    d = {"N": n, "CODE": code, "PROP": prop}
    nm = "elias-%s-n%d" % ("gamma" if code == 0 else "delta", n)
    for i, l in enumerate(lgs):
        d["LG%d" % i] = l; nm += "-lg%d" % l
    if cap is not None:
        d["CAP"] = cap; nm += "-cap%d" % cap
    return Query(nm, "array/elias.c", ["varintElias.c"], defs=d, checks="mem", unwind=max(40, 16 * n + 8), unwind_fn=ELIAS_UW, timeout=to,
                 weight=2 * n)


def bp_q(prop, kind, n, B=None, bw=None, cap=None, to=3600):
    d = {"N": n, "KIND": kind, "PROP": prop}
    nm = "bp128-%s-n%d" % (["enc32", "enc64", "delta32", "delta64"][kind], n)
    if B:
        d["VARINT_VERIF_BP128_BLOCK_SIZE"] = B; nm += "-B%d" % B
    if bw is not None:
        d["BW"] = bw; nm += "-bw%d" % bw
    if cap is not None:
        d["CAP"] = cap; nm += "-cap%d" % cap
    dflt = (n + 2) if not B else max(n, B) + 2
    ebits = 33 if kind in (0, 2) else 65
    uf = {"varintBP128*": [["b < bitWidth", ebits], ["while \\(value\\)", ebits], ["", dflt]], "bitsneeded": 66, "varintTagged*": 9}
    q = Query(nm, "array/bp128.c", ["varintBP128.c"] + T, defs=d, checks="mem", unwind=max(60, n * 8 + 40), unwind_fn=uf, timeout=to,
              weight=2 * n + (4 if B else 0))
    if B and kind in (1, 3):
        q.mem_gb = 20   # the scaled 64-bit instances build multi-GB formulas: scheduled through the heavy-query memory budget
        q.weight = 40
    return q


def codec_queries(prop, tier):
    """All array-codec queries for one property section (2, 3, 13 or 16)."""
    qs = []
    q = tier == "quick"
    # ---- FOR: quick = 11 classes covering every width once, n = 3; thorough = all 72 classes at n = 3 (round trip part),
    #      the other parts and n = 2, 4 on the 11 classes (budget: a few hundred queries of 10-100 s)
    qcls = for_classes("quick")
    for (w, mw) in for_classes(tier):
        inq = (w, mw) in qcls
        for n in ((3,) if (q or not inq) else (2, 3, 4)):
            if prop == 2:
                parts = (1, 2, 3) if ((not q and inq) or (w, mw) in ((1, 1), (8, 9), (4, 4))) else (1,)
                for part in parts:
                    qs.append(for_q(2, n, w, mw, part=part, to=600 if q else 3600))
            elif prop == 13:
                for cap in ((n - 1,) if (q or not inq) else range(0, n)):
                    qs.append(for_q(13, n, w, mw, cap=cap, to=600 if q else 3600))
            else:
                qs.append(for_q(prop, n, w, mw, to=600 if q else 3600))
    # FOR at the count-varint boundary (240 / 241 elements; 2287 / 2288 ran out of memory at 16 GB): semi-concrete instances
    for (n, w) in (((241, 1),) if q else ((240, 1), (241, 1), (241, 2), (241, 8), (240, 8))):
        uf = {f: n + 2 for f in ["varintFORAnalyze", "varintFOREncode", "varintFORDecode", "varintFORDecodeBlock"]}
        qs.append(Query("for-boundary-n%d-W%d" % (n, w), "array/for_lit.c", ["varintFOR.c"] + T, defs={"N": n, "W": w, "PROP": prop}, checks="mem",
                        unwind=n * 8 + 30, unwind_fn=uf, timeout=900 if q else 3600, mem_gb=16, weight=3 if n < 1000 else 30,
                        extra=["--max-field-sensitivity-array-size", str(n * 8 + 64)]))
    # ---- PFOR (no capacity parameter of its own: C13 covers it through adaptive)
    if prop in (2, 3, 16):
        if q:
            cells = [(2, 95, 1, 1), (2, 95, 8, 9), (2, 90, 2, 2), (2, 99, 4, 5)]
        else:
            cells = [(2, t, w, mw) for t in (90, 95, 99) for (w, mw) in ((1, 1), (2, 2), (3, 3), (4, 5), (5, 4), (6, 6), (7, 8), (8, 9), (1, 9), (8, 1))]
            cells += [(3, t, w, mw) for t in (90, 95, 99) for (w, mw) in ((1, 1), (8, 9))]
        for (n, t, w, mw) in cells:
            for part in ((1, 2, 3) if prop == 2 else (None,)):
                qs.append(pfor_q(prop, n, t, w, mw, part=part, to=900 if q else 3600))
    # ---- group
    for n in ((3,) if q else (1, 2, 3, 4)):
        if prop == 13:
            for cap in ((n - 1,) if q else range(0, n)):
                qs.append(group_q(13, n, cap=cap))
        else:
            qs.append(group_q(prop, n))
    # group with many fields (the width bitmap spans several bytes / words): 33, 40 and 64 fields, two of them symbolic
    if prop in (2, 3, 16):
        for n in ((40,) if q else (32, 33, 40, 64)):
            qs.append(Query("group-%d-fields" % n, "array/group.c", ["varintGroup.c"] + T, defs={"N": n, "LITN": 1, "PROP": prop}, checks="mem",
                            unwind=1 + (n * 2 + 7) // 8 + n * 8 + 8, unwind_fn={"varintGroup*": n + 2, "varintExternal*": 9, "ref_bytes": 9},
                            timeout=900 if q else 3600, weight=5, extra=["--max-field-sensitivity-array-size", "700"]))
    # ---- delta
    if prop in (2, 3):
        for n in ((2,) if q else (1, 2, 3)):
            for s in (0, 1):
                qs.append(delta_q(prop, n, s))
    # ---- RLE
    for n in ((2,) if q else (1, 2, 3)):
        for hdr in (0, 1):
            if prop == 13:
                for cap in ((n - 1,) if q else range(0, n)):
                    qs.append(rle_q(13, n, hdr, cap=cap))
            else:
                qs.append(rle_q(prop, n, hdr))
    if prop == 13 and q:
        qs.append(rle_q(13, 3, 0, cap=2))   # a later run crossing the capacity (needs >= 2 runs before the end)
    # run-length boundaries of the tagged run-length varint
    for (n, repl) in (((242, 241), (257, 256)) if q else ((241, 240), (242, 241), (256, 255), (257, 256))):
        for hdr in ((0,) if q else (0, 1)):
            if prop == 3:   # size predictor vs bytes written; the decode / metadata sections do not finish at these lengths
                qs.append(rle_repl_q(prop, n, repl, hdr))
    # ---- dict
    if prop in (2, 3, 13):
        for n in ((2,) if q else (1, 2, 3)):
            if prop == 13:
                for cap in ((n - 1,) if q else range(0, n)):
                    qs.append(dict_q(13, n, cap=cap))
            else:
                qs.append(dict_q(prop, n))
        if prop == 2:   # index-width boundary: 255 / 256 / 257 dictionary entries
            for D in ((256,) if q else (255, 256, 257)):
                qs.append(dictw_q(2, D))
    # ---- Elias
    for code in (0, 1):
        qs.append(elias_q(prop, code, 1))
        pairs = ((0, 63), (7, 8), (63, 63)) if q else [(a, b) for a in (0, 1, 7, 8, 31, 62, 63) for b in (0, 7, 31, 63)]
        for (a, b) in pairs:
            if prop == 13:
                for cap in ((1,) if q else (0, 1)):
                    qs.append(elias_q(13, code, 2, (a, b), cap=cap))
            else:
                qs.append(elias_q(prop, code, 2, (a, b)))
    # ---- BP128: real block size with partial blocks, scaled block size for the full/partial transitions
    for kind in (0, 1, 2, 3):
        for n in ((2,) if q else (1, 2, 3)):
            if prop == 13:
                for cap in ((n - 1,) if q else range(0, n)):
                    qs.append(bp_q(13, kind, n, cap=cap))
            else:
                qs.append(bp_q(prop, kind, n))
        wide = kind in (1, 3)
        if q:
            bws = (1, 33) if wide else (1, 9)
            if prop in (2, 13) and wide:
                # quick budget: the 64-bit scaled round trips cost 2-13 minutes each; quick keeps enc64 at bit width 1,
                # the rest (and delta64) runs in the thorough tier; C03/C16 keep all four kinds in quick
                bws = (1,) if kind == 1 else ()
            ns = (5,)
        else:
            bws = ((0, 1, 8, 33, 64) if kind == 1 else (0, 1, 8)) if wide else (0, 1, 2, 7, 8, 9, 16, 31, 32)
            # (delta64 at bit widths 33 / 64 with 5 scaled elements: over an hour per round-trip query, not registered)
            ns = (5,) if wide else (4, 5, 9)
        for bw in bws:
            for n in ns:
                if n == 9 and bw not in (1, 9):
                    continue
                to = 900 if q else 5400
                if prop == 13:
                    qs.append(bp_q(13, kind, n, B=4, bw=bw, cap=n - 1, to=to))
                    if not q and n - 1 != 4:
                        qs.append(bp_q(13, kind, n, B=4, bw=bw, cap=4, to=to))
                else:
                    qs.append(bp_q(prop, kind, n, B=4, bw=bw, to=to))
    for x in qs:
        x.name = "P%d-" % prop + x.name if not x.name.startswith("P") else x.name
    return qs
