/* Adaptive codec on N symbolic elements.
 *  MODE 0: forced encoding FORCE (varintAdaptiveEncodeWith) on input in that encoding's documented domain
 *  MODE 1: automatic (varintAdaptiveEncode), optionally restricted to the class SEL == selected encoding
 *  MODE 2: varintAdaptiveAnalyze tells the truth (C06 b)
 * PROP 6: round trip, header byte names the encoding and agrees with meta;
 * PROP 3: output within varintAdaptiveMaxSize(N) (MODE 1);
 * PROP 13: decode with capacity CAP < N writes at most CAP elements;
 * PROP 16: varintAdaptiveGetEncodingType / meta fields. */
#include "vp.h"
#include "../scalar/ref.h"
#include "varintAdaptive.h"
#define VP_ALLOC_SIZES X(0) X(2) X(4) X(6) X(8) X(16) X(24) X(32) X(40) X(48) X(64) X(128) X(sizeof(varintBitmap)) X(VARINT_BITMAP_BITMAP_SIZE) X(VARINT_BITMAP_DEFAULT_ARRAY_CAPACITY * 2)
#include "vp_alloc.inc"
#ifndef N
#define N 2
#endif
#ifndef PROP
#define PROP 6
#endif
#define ON(p) (PROP == (p))
#define MAXSIZE (1 + 9 + 1 + 9 + N * 9 + 1 + N * 19 + 8)
#define T_DELTA VARINT_ADAPTIVE_DELTA
#define T_FOR VARINT_ADAPTIVE_FOR
#define T_PFOR VARINT_ADAPTIVE_PFOR
#define T_DICT VARINT_ADAPTIVE_DICT
#define T_BITMAP VARINT_ADAPTIVE_BITMAP
#define T_TAGGED VARINT_ADAPTIVE_TAGGED

void harness(void) {
#ifdef WIDE_LIT
    /* semi-concrete instance: N - 1 literal values that need 9 tagged bytes each and one symbolic value of that class */
    VP_IN(uint64_t, wide);
    VP_ASSUME(wide >= (1ull << 56));
    uint64_t v[N];
    for (unsigned i = 0; i < N; i++)
        v[i] = 0xF000000000000000ull + 977ull * i;
    v[N - 1] = wide;
#else
    VP_IN_ARR(uint64_t, v, N);
#endif
    VP_IN_ARR(uint8_t, init, MAXSIZE);
#if MODE == 2
    varintAdaptiveDataStats s;
    varintAdaptiveAnalyze(v, N, &s);
    uint64_t mn = v[0], mx = v[0], maxd = 0;
    __uint128_t sumd = 0;
    int asc = 1, desc = 1;
    unsigned uniq = 0;
    for (unsigned i = 0; i < N; i++) {
        if (v[i] < mn) mn = v[i];
        if (v[i] > mx) mx = v[i];
        int seen = 0;
        for (unsigned j = 0; j < i; j++)
            if (v[j] == v[i]) seen = 1;
        uniq += !seen;
        if (i) {
            uint64_t d = v[i] > v[i - 1] ? v[i] - v[i - 1] : v[i - 1] - v[i];
            if (d > maxd) maxd = d;
            sumd += d;
            if (v[i] < v[i - 1]) asc = 0;
            if (v[i] > v[i - 1]) desc = 0;
        }
    }
    VP_ASSERT("P:analyze.count_min_max_range", s.count == N && s.minValue == mn && s.maxValue == mx && s.range == mx - mn);
    VP_ASSERT("P:analyze.unique_count_exact_below_sampling_threshold", s.uniqueCount == uniq);
    VP_ASSERT("P:analyze.sortedness", s.isSorted == (asc != 0) && s.isReverseSorted == (!asc && desc));
    VP_ASSERT("P:analyze.fits_bitmap", s.fitsInBitmapRange == (mx < 65536));
    VP_ASSERT("P:analyze.max_delta", s.maxDelta == maxd);
    /* the library sums deltas in 64 bits: truthful whenever the sum does not wrap */
    if (sumd <= UINT64_MAX)
        VP_ASSERT("P:analyze.avg_delta", N < 2 || s.avgDelta == (uint64_t)sumd / (N - 1));
    VP_ASSERT("P:analyze.no_leak", vp_live == 0);
#else
    uint8_t dst[MAXSIZE];
    for (unsigned i = 0; i < MAXSIZE; i++)
        dst[i] = init[i];
    varintAdaptiveMeta m;
#if MODE == 0
#if FORCE == 4 /* BITMAP: strictly increasing values below 65536 (VARINT_BITMAP_MAX_VALUE; scaled under the hook) */
    for (unsigned i = 0; i < N; i++)
        VP_ASSUME(v[i] < VARINT_BITMAP_MAX_VALUE);
    for (unsigned i = 1; i < N; i++)
        VP_ASSUME(v[i - 1] < v[i]);
#endif
    const varintAdaptiveEncodingType want = (varintAdaptiveEncodingType)FORCE;
    size_t w = varintAdaptiveEncodeWith(dst, v, N, want, &m);
#else
    /* automatic path, decomposed along the three-line body of varintAdaptiveEncode
     * (EncodeWith(Select(Analyze(v)))): the real analysis and selection run on the symbolic
     * input, the class "selection == SEL" is assumed, and the real encoder runs with that
     * (now concrete) type so that only one arm of its dispatch is explored per query.
     * Without SEL the real varintAdaptiveEncode is called directly (thorough, small n). */
    varintAdaptiveDataStats st;
    varintAdaptiveAnalyze(v, N, &st);
#ifdef SEL
    VP_ASSUME(varintAdaptiveSelectEncoding(&st) == (varintAdaptiveEncodingType)SEL);
    const varintAdaptiveEncodingType want = (varintAdaptiveEncodingType)SEL;
    size_t w = varintAdaptiveEncodeWith(dst, v, N, want, &m);
#else
    const varintAdaptiveEncodingType want = varintAdaptiveSelectEncoding(&st);
    size_t w = varintAdaptiveEncode(dst, v, N, &m);
#endif
    if (ON(3)) {
        size_t maxb = varintAdaptiveMaxSize(N);
        VP_ASSERT("P:adaptive.returned_le_maxsize", w <= maxb);
        for (unsigned i = 0; i < MAXSIZE; i++)
            if (i >= maxb)
                VP_ASSERT("P:adaptive.no_write_beyond_maxsize", dst[i] == init[i]);
    }
#endif
    VP_ASSUME(w != 0 && w <= MAXSIZE);
    if (ON(6) || ON(16) || ON(13)) {
        VP_ASSERT("P:adaptive.header_byte_names_encoding", dst[0] == (uint8_t)want);
        VP_ASSERT("P:adaptive.meta_agrees", m.encodingType == want && m.originalCount == N && m.encodedSize == w);
        VP_ASSERT("P:adaptive.get_encoding_type", varintAdaptiveGetEncodingType(dst) == want);
    }
    /* The header byte is asserted above (PROP 6/16); the decoders get a copy whose first byte is
     * that same value as a literal, so that symbolic execution follows one arm of the decoder's
     * dispatch instead of all six (dst was written at symbolic offsets, which hides dst[0]). */
    VP_ASSUME(dst[0] == (uint8_t)want);
    uint8_t enc[MAXSIZE];
    enc[0] = (uint8_t)want;
    for (unsigned i = 1; i < MAXSIZE; i++)
        enc[i] = dst[i];
#if (MODE == 0 && FORCE == 4) || (MODE == 1 && defined(SEL) && SEL == 4)
    /* BITMAP arm, N distinct members: the serialisation is [type ARRAY][cardinality N:u32le][members];
     * asserted, then handed to the decoder as literals for the same reason as the header byte */
    VP_ASSERT("P:adaptive.bitmap_payload_header", dst[1] == 0 && dst[2] == N && dst[3] == 0 && dst[4] == 0 && dst[5] == 0);
    VP_ASSUME(dst[1] == 0 && dst[2] == N && dst[3] == 0 && dst[4] == 0 && dst[5] == 0);
    enc[1] = 0;
    enc[2] = N;
    enc[3] = enc[4] = enc[5] = 0;
#endif
#if PROP == 6
    uint64_t out[N];
    varintAdaptiveMeta dm;
    size_t r = varintAdaptiveDecode(enc, out, N, &dm);
    VP_ASSERT("P:adaptive.decode_count", r == N);
    for (unsigned i = 0; i < N; i++)
        VP_ASSERT("P:adaptive.roundtrip", out[i] == v[i]);
    VP_ASSERT("P:adaptive.decode_meta_type", dm.encodingType == want);
    VP_ASSERT("P:adaptive.no_leak", vp_live == 0);
#endif
#if PROP == 13
#ifndef CAP
#define CAP (N - 1)
#endif
    uint64_t small[CAP > 0 ? CAP : 1];
    size_t pr = varintAdaptiveDecode(enc, small, CAP, 0);
    VP_ASSERT("P:adaptive.capacity_respected", pr <= CAP);
    for (unsigned i = 0; i < N; i++)
        if (i < pr && i < CAP)
            VP_ASSERT("P:adaptive.capacity_prefix", small[i] == v[i]);
#endif
#endif
    VP_REACH();
}
