/* The BITMAP arm of the adaptive codec, taken apart so that each half is tractable:
 *  PART 1 (C06/C16): varintAdaptiveEncodeWith(.., BITMAP, ..) on N strictly increasing symbolic values < 65536 writes
 *          exactly the serialisation [4][type ARRAY = 0][cardinality N : u32 le][members : u16 le] (the bitmap module's
 *          documented array format), returns its length, and fills the metadata;
 *  PART 2 (C06/C13): varintAdaptiveDecode on THAT serialisation (literal framing bytes, symbolic members) with capacity
 *          CAP returns the members (CAP >= N) or 0 / a prefix without writing past the capacity (CAP < N).
 * Together: Decode(Encode(v)) == v for the BITMAP arm, by transitivity through the explicit byte string. */
#include "vp.h"
#include "varintAdaptive.h"
#define VP_ALLOC_SIZES X(0) X(2) X(4) X(6) X(8) X(16) X(24) X(32) X(sizeof(varintBitmap))
#include "vp_alloc.inc"
#ifndef N
#define N 3
#endif
#ifndef CAP
#define CAP N
#endif
#define LEN (1 + 1 + 4 + 2 * N)

void harness(void) {
    VP_IN_ARR(uint16_t, mem, N);
    for (unsigned i = 1; i < N; i++)
        VP_ASSUME(mem[i - 1] < mem[i]);
    uint8_t ref[LEN];
    ref[0] = VARINT_ADAPTIVE_BITMAP;
    ref[1] = 0; /* VARINT_BITMAP_ARRAY */
    ref[2] = N;
    ref[3] = ref[4] = ref[5] = 0;
    for (unsigned i = 0; i < N; i++) {
        ref[6 + 2 * i] = (uint8_t)(mem[i] & 0xff);
        ref[7 + 2 * i] = (uint8_t)(mem[i] >> 8);
    }
#if PART == 1
    uint64_t v[N];
    for (unsigned i = 0; i < N; i++)
        v[i] = mem[i];
    uint8_t dst[LEN + 4];
    for (unsigned i = 0; i < LEN + 4; i++)
        dst[i] = 0xA5;
    varintAdaptiveMeta m;
    size_t w = varintAdaptiveEncodeWith(dst, v, N, VARINT_ADAPTIVE_BITMAP, &m);
    VP_ASSERT("P:adaptive.bitmap.encode_len", w == LEN);
    for (unsigned i = 0; i < LEN; i++)
        VP_ASSERT("P:adaptive.bitmap.encode_bytes", dst[i] == ref[i]);
    for (unsigned i = LEN; i < LEN + 4; i++)
        VP_ASSERT("P:adaptive.bitmap.encode_no_overrun", dst[i] == 0xA5);
    VP_ASSERT("P:adaptive.bitmap.encode_meta", m.encodingType == VARINT_ADAPTIVE_BITMAP && m.originalCount == N && m.encodedSize == w);
    VP_ASSERT("P:adaptive.bitmap.no_leak", vp_live == 0);
#else
    uint64_t out[CAP > 0 ? CAP : 1];
    size_t r = varintAdaptiveDecode(ref, out, CAP, 0);
#if CAP >= N
    VP_ASSERT("P:adaptive.bitmap.decode_count", r == N);
    for (unsigned i = 0; i < N; i++)
        VP_ASSERT("P:adaptive.bitmap.decode_values", out[i] == mem[i]);
#else
    VP_ASSERT("P:adaptive.bitmap.capacity_respected", r <= CAP);
    for (unsigned i = 0; i < N; i++)
        if (i < r && i < CAP)
            VP_ASSERT("P:adaptive.bitmap.capacity_prefix", out[i] == mem[i]);
#endif
    VP_ASSERT("P:adaptive.bitmap.no_leak", vp_live == 0);
#endif
    VP_REACH();
}
