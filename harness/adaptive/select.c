/* C06(a): selection vs domain, independent of array size.
 * Arbitrary statistics constrained only by what every varintAdaptiveAnalyze
 * result satisfies; count is a free 64-bit variable (every array length,
 * including the sampled > 10000 regime where uniqueCount is an estimate - the
 * estimate is simply another free variable).  The selected encoding's documented
 * domain must contain the data: BITMAP only for strictly increasing values
 * below 65536 (= isSorted, all values distinct, max < 65536). */
#include "vp.h"
#include "varintAdaptive.h"

void harness(void) {
    VP_IN(uint64_t, count);
    VP_IN(uint64_t, minValue);
    VP_IN(uint64_t, maxValue);
    VP_IN(uint64_t, uniqueCount);
    VP_IN(uint64_t, trueUnique);
    VP_IN(uint64_t, avgDelta);
    VP_IN(uint64_t, maxDelta);
    VP_IN(uint64_t, outlierCount);
    VP_IN(uint8_t, sortedness); /* 0 unsorted, 1 ascending, 2 descending */
    VP_ASSUME(count >= 1 && count <= (1ull << 40));
    VP_ASSUME(minValue <= maxValue);
    VP_ASSUME(trueUnique >= 1 && trueUnique <= count);
    /* exact below the sampling threshold, an arbitrary estimate in [1, count] above it */
    VP_ASSUME(uniqueCount >= 1 && uniqueCount <= count);
    VP_ASSUME(count > 10000 || uniqueCount == trueUnique);
    VP_ASSUME(sortedness <= 2);
    VP_ASSUME(outlierCount <= count);
    VP_ASSUME(maxDelta <= maxValue - minValue && avgDelta <= maxDelta);
    /* a constant array (min == max) is both ascending and descending: Analyze reports ascending */
    VP_ASSUME(minValue != maxValue || (sortedness == 1 && trueUnique == 1));
    VP_ASSUME(trueUnique != 1 || minValue == maxValue);
    VP_ASSUME(trueUnique - 1 <= maxValue - minValue); /* distinct values need room */
    varintAdaptiveDataStats s;
    s.count = count;
    s.minValue = minValue;
    s.maxValue = maxValue;
    s.range = maxValue - minValue;
    s.uniqueCount = uniqueCount;
    s.avgDelta = avgDelta;
    s.maxDelta = maxDelta;
    s.outlierCount = outlierCount;
    s.uniqueRatio = (float)uniqueCount / (float)count;
    s.outlierRatio = s.range > 0 ? (float)outlierCount / (float)count : 0.0f;
    s.isSorted = sortedness == 1;
    s.isReverseSorted = sortedness == 2;
    s.fitsInBitmapRange = maxValue < 65536;
    varintAdaptiveEncodingType t = varintAdaptiveSelectEncoding(&s);
    VP_ASSERT("P:select.valid_type", t == VARINT_ADAPTIVE_DELTA || t == VARINT_ADAPTIVE_FOR || t == VARINT_ADAPTIVE_PFOR ||
                                         t == VARINT_ADAPTIVE_DICT || t == VARINT_ADAPTIVE_BITMAP || t == VARINT_ADAPTIVE_TAGGED);
    if (t == VARINT_ADAPTIVE_BITMAP) {
        VP_ASSERT("P:select.bitmap_only_ascending", sortedness == 1);
        VP_ASSERT("P:select.bitmap_only_duplicate_free", trueUnique == count);
        VP_ASSERT("P:select.bitmap_only_below_65536", maxValue < 65536);
    }
    VP_REACH();
}
