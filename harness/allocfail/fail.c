/* C18: a failed allocation is reported, never a crash, leak or silent corruption.
 * The k-th allocation of the call fails, k = vp_fail_at symbolic in 0..KMAX
 * (0 = none).  API selects the entry point.  Obligations:
 *   (i)   no memory error (CBMC pointer/bounds checks, checks="mem");
 *   (ii)  no leak: live allocations after a transient call == before;
 *   (iii) the call returns its documented failure value, or its output is fully
 *         correct (decoded with failures switched off and compared with the input);
 *   (iv)  failure is reported only if an allocation actually failed;
 *   (v)   the number of allocations per call is bounded by KMAX (so every k is covered).
 */
#include "vp.h"
#include "varintAdaptive.h"
#include "varintDict.h"
#include "varintFloat.h"
#include "varintPFOR.h"
#define VP_ALLOC_SIZES X(0) X(1) X(2) X(3) X(4) X(6) X(8) X(16) X(24) X(32) X(40) X(48) X(64) X(128) X(136) X(144) X(sizeof(varintBitmap))
#include "vp_alloc.inc"
#ifndef N
#define N 2
#endif
#ifndef KMAX
#define KMAX 6
#endif
#define BUF 96

void harness(void) {
    VP_IN_ARR(uint64_t, v, N);
    VP_IN(uint32_t, failat);
    VP_ASSUME(failat <= KMAX);
    uint8_t buf[BUF];
    uint64_t out[N];
    const unsigned live0 = vp_live;
    vp_alloc_calls = 0;
    vp_alloc_failed = 0;
    vp_fail_at = failat;
#if API == 0 /* varintDictEncode -> 0 on failure */
    size_t w = varintDictEncode(buf, v, N);
    vp_fail_at = 0;
    VP_ASSERT("P:oom.calls_bounded", vp_alloc_calls <= KMAX);
    VP_ASSERT("P:oom.no_leak", vp_live == live0);
    if (w == 0) {
        VP_ASSERT("P:oom.failure_only_if_alloc_failed", vp_alloc_failed);
    } else {
        VP_ASSERT("P:oom.success_output_correct.count", varintDictDecodeInto(buf, w, out, N) == N);
        for (unsigned i = 0; i < N; i++)
            VP_ASSERT("P:oom.success_output_correct", out[i] == v[i]);
    }
#elif API == 1 /* varintDictDecodeInto / varintDictDecode on a valid encoding */
    vp_fail_at = 0;
    size_t w = varintDictEncode(buf, v, N);
    VP_ASSUME(w != 0);
    const unsigned live1 = vp_live;
    vp_alloc_calls = 0;
    vp_fail_at = failat;
    size_t r = varintDictDecodeInto(buf, w, out, N);
    vp_fail_at = 0;
    VP_ASSERT("P:oom.calls_bounded", vp_alloc_calls <= KMAX);
    VP_ASSERT("P:oom.no_leak", vp_live == live1);
    if (r == 0) {
        VP_ASSERT("P:oom.failure_only_if_alloc_failed", vp_alloc_failed);
    } else {
        VP_ASSERT("P:oom.success_output_correct.count", r == N);
        for (unsigned i = 0; i < N; i++)
            VP_ASSERT("P:oom.success_output_correct", out[i] == v[i]);
    }
    vp_alloc_calls = 0;
    vp_alloc_failed = 0;
    vp_fail_at = failat;
    size_t oc = 0;
    uint64_t *o2 = varintDictDecode(buf, w, &oc);
    vp_fail_at = 0;
    if (!o2) {
        VP_ASSERT("P:oom.no_leak", vp_live == live1);
        VP_ASSERT("P:oom.failure_only_if_alloc_failed", vp_alloc_failed);
    } else {
        VP_ASSERT("P:oom.no_leak", vp_live == live1 + 1); /* the result array belongs to the caller */
        VP_ASSERT("P:oom.success_output_correct.count", oc == N);
        for (unsigned i = 0; i < N; i++)
            VP_ASSERT("P:oom.success_output_correct", o2[i] == v[i]);
    }
#elif API == 2 /* long-lived dictionary object stays consistent and usable */
    vp_fail_at = 0;
    varintDict *d = varintDictCreate();
    VP_ASSUME(d != 0);
    const unsigned live1 = vp_live;
    vp_alloc_calls = 0;
    vp_fail_at = failat;
    int rc = varintDictBuild(d, v, N);
    vp_fail_at = 0;
    VP_ASSERT("P:oom.calls_bounded", vp_alloc_calls <= KMAX);
    VP_ASSERT("P:oom.no_leak", vp_live == live1);
    if (rc != 0) {
        VP_ASSERT("P:oom.failure_only_if_alloc_failed", vp_alloc_failed);
    }
    /* consistent after the failed call ... */
    VP_ASSERT("P:oom.object_consistent", d->values != 0 && d->size <= d->capacity);
    /* ... and usable afterwards: a rebuild without failures gives a well-formed dictionary holding every value */
    VP_ASSERT("P:oom.object_usable_afterwards", varintDictBuild(d, v, N) == 0);
    VP_ASSERT("P:oom.object_usable_afterwards.size", d->size >= 1 && d->size <= N && d->size <= d->capacity);
    for (unsigned i = 0; i + 1 < N; i++)
        if (i + 1 < d->size)
            VP_ASSERT("P:oom.object_usable_afterwards.sorted_unique", d->values[i] < d->values[i + 1]);
    for (unsigned i = 0; i < N; i++) {
        int32_t ix = varintDictFind(d, v[i]);
        VP_ASSERT("P:oom.object_usable_afterwards.find", ix >= 0 && (uint32_t)ix < d->size && varintDictLookup(d, (uint32_t)ix) == v[i]);
    }
    varintDictFree(d);
    VP_ASSERT("P:oom.free_releases_everything", vp_live == live0);
#elif API == 8 /* long-lived dictionary, REBUILT with more distinct values than its capacity (16) under failure */
    vp_fail_at = 0;
    varintDict *d = varintDictCreate();
    VP_ASSUME(d != 0);
    VP_ASSERT("P:oom.prebuild", varintDictBuild(d, v, N) == 0); /* populated dictionary: the N symbolic values */
    uint64_t big[18];
    for (unsigned i = 0; i < 18; i++)
        big[i] = 1000 + 3 * i; /* 18 distinct literal values > capacity 16 */
    /* (all literal: the symbolic quantities of this query are the failing allocation index and the dictionary's
     *  previous contents; a symbolic member makes the 18-element sort and the lookups exceed 16 GB) */
    const unsigned live1 = vp_live;
    vp_alloc_calls = 0;
    vp_alloc_failed = 0;
    vp_fail_at = failat;
    int rc = varintDictBuild(d, big, 18);
    vp_fail_at = 0;
    VP_ASSERT("P:oom.calls_bounded", vp_alloc_calls <= KMAX);
    VP_ASSERT("P:oom.no_leak", vp_live == live1);
    if (rc != 0)
        VP_ASSERT("P:oom.failure_only_if_alloc_failed", vp_alloc_failed);
    /* consistent: the table pointer is valid for the recorded capacity, size within capacity */
    VP_ASSERT("P:oom.object_consistent", d->values != 0 && d->size <= d->capacity);
#ifndef VP_NATIVE
    VP_ASSERT("P:oom.capacity_backed_by_memory", __CPROVER_OBJECT_SIZE(d->values) >= d->capacity * sizeof(uint64_t));
#endif
    /* usable afterwards: lookups do not crash, and a rebuild without failures holds every value */
    (void)varintDictFind(d, 1000);
    VP_ASSERT("P:oom.object_usable_afterwards", varintDictBuild(d, big, 18) == 0 && d->size == 18);
    for (unsigned i = 0; i < 18; i++) {
        int32_t ix = varintDictFind(d, big[i]);
        VP_ASSERT("P:oom.object_usable_afterwards.find", ix >= 0 && (uint32_t)ix < d->size && varintDictLookup(d, (uint32_t)ix) == big[i]);
    }
    varintDictFree(d);
    VP_ASSERT("P:oom.free_releases_everything", vp_live == live0);
#elif API == 3 /* varintPFOREncode (threshold THR) -> 0 on failure */
    varintPFORMeta m;
    size_t w = varintPFOREncode(buf, v, N, THR, &m);
    vp_fail_at = 0;
    VP_ASSERT("P:oom.calls_bounded", vp_alloc_calls <= KMAX);
    VP_ASSERT("P:oom.no_leak", vp_live == live0);
    if (w == 0) {
        VP_ASSERT("P:oom.failure_only_if_alloc_failed", vp_alloc_failed);
    } else {
        varintPFORMeta dm;
        dm.width = 0;
        VP_ASSERT("P:oom.success_output_correct.count", varintPFORDecode(buf, out, &dm) == N);
        for (unsigned i = 0; i < N; i++)
            VP_ASSERT("P:oom.success_output_correct", out[i] == v[i]);
    }
#elif API == 4 /* varintAdaptiveEncodeWith(FORCE) -> 0 on failure */
    varintAdaptiveMeta m;
    size_t w = varintAdaptiveEncodeWith(buf, v, N, (varintAdaptiveEncodingType)FORCE, &m);
    vp_fail_at = 0;
    VP_ASSERT("P:oom.calls_bounded", vp_alloc_calls <= KMAX);
    VP_ASSERT("P:oom.no_leak", vp_live == live0);
    if (w == 0) {
        VP_ASSERT("P:oom.failure_only_if_alloc_failed", vp_alloc_failed);
    } else {
        VP_ASSERT("P:oom.header", buf[0] == FORCE);
        VP_ASSUME(buf[0] == FORCE);
        uint8_t enc[BUF];
        enc[0] = FORCE;
        for (unsigned i = 1; i < BUF; i++)
            enc[i] = buf[i];
        VP_ASSERT("P:oom.success_output_correct.count", varintAdaptiveDecode(enc, out, N, 0) == N);
        for (unsigned i = 0; i < N; i++)
            VP_ASSERT("P:oom.success_output_correct", out[i] == v[i]);
    }
#elif API == 5 /* varintAdaptiveDecode(FORCE) on a valid encoding: 0 or fully correct */
    vp_fail_at = 0;
    size_t w = varintAdaptiveEncodeWith(buf, v, N, (varintAdaptiveEncodingType)FORCE, 0);
    VP_ASSUME(w != 0 && buf[0] == FORCE);
    uint8_t enc[BUF];
    enc[0] = FORCE;
    for (unsigned i = 1; i < BUF; i++)
        enc[i] = buf[i];
    const unsigned live1 = vp_live;
    vp_alloc_calls = 0;
    vp_alloc_failed = 0;
    vp_fail_at = failat;
    size_t r = varintAdaptiveDecode(enc, out, N, 0);
    vp_fail_at = 0;
    VP_ASSERT("P:oom.calls_bounded", vp_alloc_calls <= KMAX);
    VP_ASSERT("P:oom.no_leak", vp_live == live1);
    if (r == 0) {
        VP_ASSERT("P:oom.failure_only_if_alloc_failed", vp_alloc_failed);
    } else {
        VP_ASSERT("P:oom.success_output_correct.count", r == N);
        for (unsigned i = 0; i < N; i++)
            VP_ASSERT("P:oom.success_output_correct", out[i] == v[i]);
    }
#elif API == 6 /* varintAdaptiveAnalyze / CountUnique: documented fallback = conservative estimate, never a crash or leak */
    varintAdaptiveDataStats s;
    varintAdaptiveAnalyze(v, N, &s);
    vp_fail_at = 0;
    VP_ASSERT("P:oom.calls_bounded", vp_alloc_calls <= KMAX);
    VP_ASSERT("P:oom.no_leak", vp_live == live0);
    VP_ASSERT("P:oom.analyze_still_sane", s.count == N && s.uniqueCount >= 1 && s.uniqueCount <= N);
    if (!vp_alloc_failed) {
        unsigned u = 1;
        for (unsigned i = 1; i < N; i++) {
            int seen = 0;
            for (unsigned j = 0; j < i; j++)
                if (v[j] == v[i])
                    seen = 1;
            u += !seen;
        }
        VP_ASSERT("P:oom.analyze_exact_without_failure", s.uniqueCount == u);
    }
#elif API == 7 /* float encode/decode: 0 on failure */
    double dv[N], dout[N];
    for (unsigned i = 0; i < N; i++)
        dv[i] = vp_bits_to_double(v[i]);
    size_t w = varintFloatEncode(buf, dv, N, VARINT_FLOAT_PRECISION_FULL, (varintFloatEncodingMode)FMODE);
    vp_fail_at = 0;
    VP_ASSERT("P:oom.calls_bounded", vp_alloc_calls <= KMAX);
    VP_ASSERT("P:oom.no_leak", vp_live == live0);
    if (w == 0) {
        VP_ASSERT("P:oom.failure_only_if_alloc_failed", vp_alloc_failed);
    } else {
        VP_ASSERT("P:oom.success_output_correct.count", varintFloatDecode(buf, N, dout) == w);
        for (unsigned i = 0; i < N; i++)
            VP_ASSERT("P:oom.success_output_correct", vp_double_to_bits(dout[i]) == v[i]);
        /* and the decoder under failure: 0 or bit-exact */
        vp_alloc_calls = 0;
        vp_alloc_failed = 0;
        vp_fail_at = failat;
        double d2[N];
        size_t r = varintFloatDecode(buf, N, d2);
        vp_fail_at = 0;
        VP_ASSERT("P:oom.no_leak", vp_live == live0);
        if (r == 0) {
            VP_ASSERT("P:oom.failure_only_if_alloc_failed", vp_alloc_failed);
        } else {
            for (unsigned i = 0; i < N; i++)
                VP_ASSERT("P:oom.success_output_correct", vp_double_to_bits(d2[i]) == v[i]);
        }
    }
#endif
    VP_REACH();
}
