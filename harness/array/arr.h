/* shared helpers for the array-codec harnesses (C02, C03, C13, C16) */
#ifndef VP_ARR_H
#define VP_ARR_H
#include "vp.h"
#include "../scalar/ref.h"
#ifndef PROP
#define PROP 0 /* 0 = all property sections, else 2, 3, 13 or 16 */
#endif
#define ON(p) (PROP == 0 || PROP == (p))
#define A(p, tag, cond)                                                        \
    do {                                                                       \
        if (ON(p))                                                             \
            VP_ASSERT("P:C" #p "." tag, cond);                                 \
    } while (0)
#endif
