/* BP128 block packing.  KIND 0: Encode32/Decode32, 1: Encode64/Decode64,
 * 2: DeltaEncode32/DeltaDecode32, 3: DeltaEncode64/DeltaDecode64 (non-decreasing input).
 * N elements.  Block size = VARINT_BP128_BLOCK_SIZE (128, or the scaled value the
 * MATTSTA_VARINT_VERIF hook takes from -DVARINT_VERIF_BP128_BLOCK_SIZE=k).
 * Optional class split BW = bit width of the maximum (harness-derived).
 * C02 round trip, C03 varintBP128MaxBytes, C13 capacity prefix, C16 meta/GetCount. */
#include "arr.h"
#include "varintBP128.h"
#ifndef N
#define N 3
#endif
#define B VARINT_BP128_BLOCK_SIZE
#if KIND == 0 || KIND == 2
typedef uint32_t elt;
#define EBITS 32
#else
typedef uint64_t elt;
#define EBITS 64
#endif
#define MAXSIZE (9 + ((N + B - 1) / B) * 2 + N * (EBITS / 8) + 12)

static unsigned bitsneeded(uint64_t x) {
    unsigned b = 0;
    while (b < 64 && (x >> b) != 0)
        b++;
    return b;
}

void harness(void) {
    VP_IN_ARR(elt, v, N);
    VP_IN_ARR(uint8_t, init, MAXSIZE);
    VP_IN_ARR(uint8_t, junk, MAXSIZE);
#if KIND >= 2
    for (unsigned i = 1; i < N; i++)
        VP_ASSUME(v[i - 1] <= v[i]);
#endif
    /* ground truth for metadata: the packed stream (values, or deltas after the first) */
    uint64_t mx = 0;
#if KIND >= 2
    for (unsigned i = 1; i < N; i++)
        if ((uint64_t)(v[i] - v[i - 1]) > mx)
            mx = v[i] - v[i - 1];
    const unsigned packed = N - 1;
#else
    for (unsigned i = 0; i < N; i++)
        if (v[i] > mx)
            mx = v[i];
    const unsigned packed = N;
#endif
#ifdef BW
    VP_ASSUME(bitsneeded(mx) == BW);
#endif
    uint8_t dst[MAXSIZE];
    for (unsigned i = 0; i < MAXSIZE; i++)
        dst[i] = init[i];
    varintBP128Meta m;
    size_t maxb = varintBP128MaxBytes(N);
#if KIND == 0
    size_t w = varintBP128Encode32(dst, v, N, &m);
#elif KIND == 1
    size_t w = varintBP128Encode64(dst, v, N, &m);
#elif KIND == 2
    size_t w = varintBP128DeltaEncode32(dst, v, N, &m);
#else
    size_t w = varintBP128DeltaEncode64(dst, v, N, &m);
#endif
    A(3, "bp128.returned_le_maxbytes", w <= maxb);
    for (unsigned i = 0; i < MAXSIZE; i++)
        if (i >= maxb)
            A(3, "bp128.no_write_beyond_maxbytes", dst[i] == init[i]);
    A(16, "bp128.meta.count", m.count == N);
    A(16, "bp128.meta.encoded_bytes", m.encodedBytes == w);
    A(16, "bp128.meta.block_count", m.blockCount == (packed + B - 1) / B);
    A(16, "bp128.meta.last_block_size", packed == 0 || m.lastBlockSize == (packed % B ? packed % B : B));
    A(16, "bp128.meta.max_bit_width", m.maxBitWidth == bitsneeded(mx));
#if KIND == 1
    A(16, "bp128.getcount", varintBP128GetCount(dst, w) == N);
#endif
    uint8_t enc[MAXSIZE];
    for (unsigned i = 0; i < MAXSIZE; i++)
        enc[i] = i < w ? dst[i] : junk[i];
#if ON(2)
    elt out[N];
#if KIND == 0
    size_t r = varintBP128Decode32(enc, out, N);
#elif KIND == 1
    size_t r = varintBP128Decode64(enc, out, N);
#elif KIND == 2
    size_t r = varintBP128DeltaDecode32(enc, out, N);
#else
    size_t r = varintBP128DeltaDecode64(enc, out, N);
#endif
    A(2, "bp128.decode_count", r == N);
    for (unsigned i = 0; i < N; i++)
        A(2, "bp128.roundtrip", out[i] == v[i]);
#endif
#if ON(13)
#ifndef CAP
#define CAP (N - 1)
#endif
    elt small[CAP > 0 ? CAP : 1];
#if KIND == 0
    size_t pr = varintBP128Decode32(enc, small, CAP);
#elif KIND == 1
    size_t pr = varintBP128Decode64(enc, small, CAP);
#elif KIND == 2
    size_t pr = varintBP128DeltaDecode32(enc, small, CAP);
#else
    size_t pr = varintBP128DeltaDecode64(enc, small, CAP);
#endif
    A(13, "bp128.prefix_within_capacity", pr <= CAP);
    for (unsigned i = 0; i < N; i++)
        if (i < pr && i < CAP)
            A(13, "bp128.prefix_values", small[i] == v[i]);
#endif
    VP_REACH();
}
