/* Delta codec.  SIGNED=1: varintDeltaEncode/Decode on int64 with representable
 * differences; SIGNED=0: unsigned variant (all inputs).  C02 round trip with the
 * original count and bytes-read == bytes-written, C03 varintDeltaMaxEncodedSize. */
#include "arr.h"
#include "varintDelta.h"
#ifndef N
#define N 3
#endif
#define MAXSIZE (1 + 8 + (N - 1) * 9)
void harness(void) {
    VP_IN_ARR(uint64_t, v, N);
    VP_IN_ARR(uint8_t, junk, MAXSIZE + 2);
    size_t promised = varintDeltaMaxEncodedSize(N);
    A(3, "delta.maxsize_formula", promised == MAXSIZE);
    uint8_t dst[MAXSIZE]; /* object of exactly the advertised size */
#if SIGNED
    int64_t sv[N];
    for (unsigned i = 0; i < N; i++)
        sv[i] = (int64_t)v[i];
    for (unsigned i = 1; i < N; i++) {
        __int128 d = (__int128)sv[i] - (__int128)sv[i - 1];
        VP_ASSUME(d >= INT64_MIN && d <= INT64_MAX); /* documented domain: representable differences */
    }
    size_t w = varintDeltaEncode(dst, sv, N);
#else
    size_t w = varintDeltaEncodeUnsigned(dst, v, N);
#endif
    A(3, "delta.returned_le_max", w <= promised);
#if ON(2)
    uint8_t enc[MAXSIZE + 2];
    for (unsigned i = 0; i < MAXSIZE + 2; i++)
        enc[i] = i < w ? dst[i] : junk[i];
#if SIGNED
    int64_t out[N];
    size_t r = varintDeltaDecode(enc, N, out);
    for (unsigned i = 0; i < N; i++)
        A(2, "delta.roundtrip", out[i] == sv[i]);
#else
    uint64_t out[N];
    size_t r = varintDeltaDecodeUnsigned(enc, N, out);
    for (unsigned i = 0; i < N; i++)
        A(2, "delta.roundtrip", out[i] == v[i]);
#endif
    A(2, "delta.bytes_read_eq_written", r == w);
#endif
    VP_REACH();
}
