/* Dictionary codec, N elements.  C02 both decoders, C03 exact encoded size,
 * C13 DecodeInto capacity.  Allocation sizes are concrete (size-dispatch stub). */
#include "arr.h"
#include "varintDict.h"
#ifndef N
#define N 3
#endif
#define VP_ALLOC_SIZES X(0) X(8) X(16) X(24) X(32) X(40) X(48) X(128) X(N * 8)
#include "vp_alloc.inc"
#ifndef N
#define N 3
#endif
#ifdef LIT
#define MAXSIZE (2 + N * 2 + 9 + 2 + N * 2 + 3)
#else
#define MAXSIZE (1 + N * 9 + 1 + N * 1 + 3)
#endif
void harness(void) {
#ifdef LIT
    /* boundary instance: N literal distinct values (index-width boundaries 255/256/257 entries); the bytes behind the
     * reported length (junk) and the prior buffer contents stay symbolic; LIT == 2 additionally makes one value symbolic */
    uint64_t v[N];
    for (unsigned i = 0; i < N; i++)
        v[i] = 3 * ((i * 7) % N) + 1; /* N distinct literal values in scrambled order (7 is coprime to 255..257) */
#if LIT == 2
    VP_IN(uint64_t, last);            /* one symbolic value above all the literal ones */
    VP_ASSUME(last > 3 * N + 10);
    v[N - 1] = last;
#endif
#else
    VP_IN_ARR(uint64_t, v, N);
#endif
    VP_IN_ARR(uint8_t, init, MAXSIZE);
    VP_IN_ARR(uint8_t, junk, MAXSIZE);
    /* ground truth: number of distinct values and sum of their tagged lengths */
    unsigned uniq = 0, dictbytes = 0;
#ifdef LIT
    uniq = N; /* N distinct literal values by construction */
    for (unsigned i = 0; i < N; i++)
        dictbytes += ref_tagged_len(v[i]);
#else
    for (unsigned i = 0; i < N; i++) {
        int seen = 0;
        for (unsigned j = 0; j < i; j++)
            if (v[j] == v[i])
                seen = 1;
        if (!seen) {
            uniq++;
            dictbytes += ref_tagged_len(v[i]);
        }
    }
#endif
#ifdef LIT
    unsigned truth = ref_tagged_len(uniq) + dictbytes + ref_tagged_len(N) + N * ref_bytes(uniq - 1);
#else
    unsigned truth = 1 + dictbytes + 1 + N * 1; /* N <= 240 entries: 1-byte sizes and indices */
#endif
    uint8_t dst[MAXSIZE];
    for (unsigned i = 0; i < MAXSIZE; i++)
        dst[i] = init[i];
    size_t promised = varintDictEncodedSize(v, N);
    size_t w = varintDictEncode(dst, v, N);
    A(3, "dict.size_exact", promised == truth && w == promised);
    for (unsigned i = 0; i < MAXSIZE; i++)
        if (i >= promised)
            A(3, "dict.no_write_beyond_size", dst[i] == init[i]);
    A(3, "dict.no_leak", vp_live == 0);
    uint8_t enc[MAXSIZE];
    for (unsigned i = 0; i < MAXSIZE; i++)
        enc[i] = i < w ? dst[i] : junk[i];
#if ON(2)
    uint64_t out[N];
    size_t r = varintDictDecodeInto(enc, w, out, N);
    A(2, "dict.decodeinto_count", r == N);
    for (unsigned i = 0; i < N; i++)
        A(2, "dict.decodeinto_roundtrip", out[i] == v[i]);
    size_t oc = 0;
    uint64_t *o2 = varintDictDecode(enc, w, &oc);
    A(2, "dict.decode_ok", o2 != 0 && oc == N);
    if (o2 && oc == N)
        for (unsigned i = 0; i < N; i++)
            A(2, "dict.decode_roundtrip", o2[i] == v[i]);
    /* explicit dictionary path writes the same bytes */
    varintDict *d = varintDictCreate();
    VP_ASSUME(d != 0);
    A(2, "dict.build_ok", varintDictBuild(d, v, N) == 0 && d->size == uniq);
    uint8_t dst2[MAXSIZE];
    size_t w2 = varintDictEncodeWithDict(dst2, d, v, N);
    A(2, "dict.withdict_same_len", w2 == w && varintDictEncodedSizeWithDict(d, N) == w);
    for (unsigned i = 0; i < MAXSIZE; i++)
        if (i < w)
            A(2, "dict.withdict_same_bytes", dst2[i] == dst[i]);
#endif
#if ON(13)
#ifndef CAP
#define CAP (N - 1)
#endif
    uint64_t small[CAP > 0 ? CAP : 1];
    A(13, "dict.decodeinto_over_capacity_fails", varintDictDecodeInto(enc, w, small, CAP) == 0);
#endif
    VP_REACH();
}
