/* Dictionary index-width agreement at cardinality boundaries (C02).
 * varintDictBuild derives dict->indexWidth from the number of distinct values; both decoders re-derive the width from
 * the dictionary size they read.  The two sides only have to agree, and they can only disagree where the byte width of
 * (size - 1) changes: 256, 65536, ... entries.  This harness reaches D in {255, 256, 257} cheaply:
 *   - the dictionary is built by the real varintDictBuild from D literal distinct values already in ascending order
 *     (value i at position i), so sorting and de-duplication constant-propagate;
 *   - M symbolic values drawn from the dictionary (any member) are encoded with the real varintDictEncodeWithDict and
 *     decoded by both real decoders from the encoder's bytes followed by unrelated symbolic junk.
 * Outside: dictionaries whose members are symbolic at this cardinality; the 65536 boundary. */
#include "arr.h"
#include "varintDict.h"
#ifndef D
#define D 256
#endif
#ifndef M
#define M 2
#endif
#define VP_ALLOC_SIZES X(0) X(8) X(16) X(24) X(32) X(40) X(48) X(128) X(M * 8) X(D * 8)
#include "vp_alloc.inc"
/* size varint (<= 2) + entries (values < 2288: <= 2 bytes each) + count (1) + indices (<= 2 each) + slack */
#define MAXSIZE (2 + D * 2 + 1 + M * 2 + 3)
void harness(void) {
    uint64_t tv[D];
    for (unsigned i = 0; i < D; i++)
        tv[i] = i;
    varintDict *d = varintDictCreate();
    VP_ASSUME(d != 0);
    int br = varintDictBuild(d, tv, D);
    A(2, "dictw.build_ok", br == 0 && d->size == D);
    VP_IN_ARR(uint64_t, v, M);
    for (unsigned i = 0; i < M; i++)
        VP_ASSUME(v[i] < D);
    VP_IN_ARR(uint8_t, junk, MAXSIZE);
    uint8_t dst[MAXSIZE];
    for (unsigned i = 0; i < MAXSIZE; i++)
        dst[i] = junk[i];
    size_t w = varintDictEncodeWithDict(dst, d, v, M);
    unsigned hdr = 0;
    for (unsigned i = 0; i < D; i++)
        hdr += ref_tagged_len(i);
    size_t truth = ref_tagged_len(D) + hdr + 1 + M * ref_bytes(D - 1);
    A(2, "dictw.size_minimal_index_width", w == truth && varintDictEncodedSizeWithDict(d, M) == w);
    VP_ASSUME(w == truth);
    uint64_t out[M];
    size_t r = varintDictDecodeInto(dst, w, out, M);
    A(2, "dictw.decodeinto_count", r == M);
    for (unsigned i = 0; i < M; i++)
        A(2, "dictw.decodeinto_roundtrip", out[i] == v[i]);
    size_t oc = 0;
    uint64_t *o2 = varintDictDecode(dst, w, &oc);
    A(2, "dictw.decode_ok", o2 != 0 && oc == M);
    if (o2 && oc == M)
        for (unsigned i = 0; i < M; i++)
            A(2, "dictw.decode_roundtrip", o2[i] == v[i]);
    VP_REACH();
}
