/* Elias gamma/delta arrays.  CODE 0 gamma, 1 delta.  N elements >= 1, optional
 * class split LG0..LG2 = floor(log2) of element 0..2.
 * C02 round trip, C03 Max bytes (destination is an object of exactly that size),
 * C13 capacity prefix, C16 meta (count, totalBits, encodedBytes). */
#include "arr.h"
#include "varintElias.h"
#ifndef N
#define N 2
#endif
#if CODE == 0
#define MAXB ((N * 127 + 7) / 8)
#define ENC varintEliasGammaEncodeArray
#define DEC varintEliasGammaDecodeArray
#define MAXFN varintEliasGammaMaxBytes
#else
#define MAXB ((N * 76 + 7) / 8)
#define ENC varintEliasDeltaEncodeArray
#define DEC varintEliasDeltaDecodeArray
#define MAXFN varintEliasDeltaMaxBytes
#endif
static unsigned lg2(uint64_t v) {
    unsigned n = 0;
    while (n < 63 && (v >> (n + 1)) != 0)
        n++;
    return n;
}
static unsigned codebits(uint64_t v) {
    unsigned n = lg2(v);
#if CODE == 0
    return 2 * n + 1;
#else
    return 2 * lg2((uint64_t)n + 1) + 1 + n;
#endif
}
void harness(void) {
    VP_IN_ARR(uint64_t, v, N);
    for (unsigned i = 0; i < N; i++)
        VP_ASSUME(v[i] >= 1);
#ifdef LG0
    VP_ASSUME(lg2(v[0]) == LG0);
#endif
#if defined(LG1) && N > 1
    VP_ASSUME(lg2(v[1]) == LG1);
#endif
#if defined(LG2) && N > 2
    VP_ASSUME(lg2(v[2]) == LG2);
#endif
    unsigned total = 0;
    for (unsigned i = 0; i < N; i++)
        total += codebits(v[i]);
    A(3, "elias.maxbytes_formula", MAXFN(N) == MAXB);
    uint8_t dst[MAXB]; /* exactly the advertised size */
    varintEliasMeta m;
    size_t w = ENC(dst, v, N, &m);
    A(3, "elias.returned_le_maxbytes", w <= MAXB);
    A(16, "elias.meta", m.count == N && m.totalBits == total && m.encodedBytes == (total + 7) / 8 && m.encodedBytes == w);
#if ON(2)
    uint64_t out[N];
    size_t r = DEC(dst, total, out, N);
    A(2, "elias.decode_count", r == N);
    for (unsigned i = 0; i < N; i++)
        A(2, "elias.roundtrip", out[i] == v[i]);
#endif
#if ON(13)
#ifndef CAP
#define CAP (N - 1)
#endif
    uint64_t small[CAP > 0 ? CAP : 1];
    size_t pr = DEC(dst, total, small, CAP);
    A(13, "elias.prefix_count", pr == CAP);
    for (unsigned i = 0; i < N; i++)
        if (i < CAP)
            A(13, "elias.prefix_values", small[i] == v[i]);
#endif
    VP_REACH();
}
