/* Frame-of-reference: C02 lossless + random access + block/batch readers,
 * C03 exact advertised size, C13 capacity, C16 metadata truth.
 * N elements (compile-time), class split: W = offset width 1..8, MW = tagged
 * width of the minimum 1..9 (both derived by the HARNESS from the data, the
 * union over W x MW is exhaustive).  CAP (PROP 13): output capacity < N. */
#include "arr.h"
#include "varintFOR.h"
#ifndef N
#define N 3
#endif
#define CW 1 /* tagged width of the count: N <= 240 */
#define SIZE (MW + 1 + CW + N * W)
#ifndef PART
#define PART 1
#endif

void harness(void) {
    VP_IN_ARR(uint64_t, v, N);
    VP_IN(uint32_t, k);
    VP_IN(uint32_t, bstart);
    VP_IN(uint32_t, bsize);
    uint64_t mn = v[0], mx = v[0];
    for (unsigned i = 1; i < N; i++) {
        if (v[i] < mn) mn = v[i];
        if (v[i] > mx) mx = v[i];
    }
    VP_ASSUME(ref_bytes(mx - mn) == W);
    VP_ASSUME(ref_tagged_len(mn) == MW);
    VP_ASSUME(k < N && bstart < N && bsize <= N);

    varintFORMeta am;
    varintFORAnalyze(v, N, &am);
    size_t promised = varintFORSize(&am);
    A(3, "for.size_exact_formula", promised == SIZE);
    A(16, "for.analyze.count", am.count == N);
    A(16, "for.analyze.min", am.minValue == mn);
    A(16, "for.analyze.max", am.maxValue == mx);
    A(16, "for.analyze.range", am.range == mx - mn);
    A(16, "for.analyze.offset_width_minimal", am.offsetWidth == W);
    A(16, "for.analyze.encoded_size", am.encodedSize == SIZE);

    /* destination of exactly the advertised size */
    uint8_t dst[SIZE];
    varintFORMeta em;
    em.count = 0; /* "not analysed yet" */
    size_t w = varintFOREncode(dst, v, N, &em);
    A(3, "for.returned_le_advertised", w <= promised);
    A(3, "for.returned_eq_advertised", w == promised);
    A(16, "for.encode_meta", em.count == N && em.minValue == mn && em.maxValue == mx && em.range == mx - mn &&
                                 em.offsetWidth == W && em.encodedSize == w);
    VP_ASSUME(w == SIZE); /* (asserted above for C03) ties the exact-size object to the run */

#if (ON(2) && PART == 2) || ON(16)
    /* already-analysed path and NULL-meta path write the same bytes */
    uint8_t d2[SIZE], d3[SIZE], d4[SIZE];
    size_t w2 = varintFOREncode(d2, v, N, &am);
    size_t w3 = varintFOREncode(d3, v, N, 0);
    varintFORMeta bm;
    bm.count = 0;
    size_t w4 = varintFORBatchEncode(d4, v, N, &bm);
    A(2, "for.encode_variants_same_len", w2 == w && w3 == w && w4 == w);
    for (unsigned i = 0; i < SIZE; i++)
        A(2, "for.encode_variants_same_bytes", d2[i] == dst[i] && d3[i] == dst[i] && d4[i] == dst[i]);
    A(16, "for.batch_meta", bm.count == N && bm.minValue == mn && bm.maxValue == mx && bm.offsetWidth == W && bm.encodedSize == w);
#endif

#if ON(2) && PART == 1
    uint64_t out[N];
    size_t got = varintFORDecode(dst, out, N);
    A(2, "for.decode_count", got == N);
    for (unsigned i = 0; i < N; i++)
        A(2, "for.roundtrip", out[i] == v[i]);
    A(2, "for.getat", varintFORGetAt(dst, k) == v[k]);
#endif
#if ON(2) && PART == 3
    uint64_t bo[N];
    size_t bg = varintFORBatchDecode(dst, bo, N);
    A(2, "for.batchdecode_count", bg == N);
    for (unsigned i = 0; i < N; i++)
        A(2, "for.batchdecode", bo[i] == v[i]);
    uint64_t blk[N];
    size_t nb = varintFORDecodeBlock(dst, blk, bstart, bsize);
    size_t expect_nb = (bstart + bsize > N) ? N - bstart : bsize;
    A(2, "for.decodeblock_count", nb == expect_nb);
    for (unsigned i = 0; i < N; i++)
        if (i < nb)
            A(2, "for.decodeblock", blk[i] == v[bstart + i]);
#endif

#if ON(13)
#ifndef CAP
#define CAP (N - 1)
#endif
    uint64_t small[CAP > 0 ? CAP : 1];
    A(13, "for.decode_over_capacity_fails", varintFORDecode(dst, small, CAP) == 0);
    uint64_t small2[CAP > 0 ? CAP : 1];
    A(13, "for.batchdecode_over_capacity_fails", varintFORBatchDecode(dst, small2, CAP) == 0);
#endif

#if ON(16)
    varintFORMeta rm;
    varintFORReadMetadata(dst, &rm);
    A(16, "for.readmeta", rm.count == N && rm.minValue == mn && rm.offsetWidth == W && rm.encodedSize == w);
    A(16, "for.getcount", varintFORGetCount(dst) == N);
    A(16, "for.getmin", varintFORGetMinValue(dst) == mn);
    A(16, "for.getoffsetwidth", varintFORGetOffsetWidth(dst) == W);
#endif
    VP_REACH();
}
