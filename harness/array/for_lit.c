/* FOR at the count-varint boundaries (N = 240 / 241, 2287 / 2288): semi-concrete instance.
 * All but two elements are literals, the frame (minimum MINV, offset width W) is fixed by literal elements, the two last
 * elements are symbolic inside the frame.  Every buffer offset is then a constant, so n = 241 costs seconds.
 * Encoder: the "already analysed" path (caller-supplied literal metadata, as documented); the analysing path makes the
 * minimum symbolic and with it every offset, and does not finish at these lengths (it is decided at n <= 4).
 * C02 round trip / GetAt / DecodeBlock, C03 exact size, C13 capacity N-1, C16 accessors. */
#include "arr.h"
#include "varintFOR.h"
#ifndef N
#define N 241
#endif
#ifndef W
#define W 1
#endif
#ifndef MINV
#define MINV 1000ull
#endif
#define MAXOFF ((W) >= 8 ? UINT64_MAX : ((1ull << (8 * (W))) - 1))
#define MW (MINV <= 240 ? 1 : MINV <= 2287 ? 2 : MINV <= 67823 ? 3 : 9)
#define CW (N <= 240 ? 1 : N <= 2287 ? 2 : 3)
#define SIZE (MW + 1 + CW + N * W)

void harness(void) {
    VP_IN(uint64_t, a);
    VP_IN(uint64_t, b);
    VP_IN(uint32_t, k);
    VP_ASSUME(a >= MINV && a - MINV <= MAXOFF && b >= MINV && b - MINV <= MAXOFF);
    VP_ASSUME(k < N);
    uint64_t v[N];
    for (unsigned i = 0; i < N; i++)
        v[i] = MINV + (uint64_t)((i * 37u) % 200u) % (MAXOFF > 199 ? 200 : (MAXOFF + 1));
    v[0] = MINV;          /* the frame's minimum ... */
    v[1] = MINV + MAXOFF; /* ... and an element that needs the full offset width */
    v[N - 2] = a;
    v[N - 1] = b;
    uint8_t dst[SIZE]; /* exactly the advertised size */
    varintFORMeta m;
    m.minValue = MINV;
    m.maxValue = MINV + MAXOFF;
    m.range = MAXOFF;
    m.count = N;
    m.offsetWidth = (varintWidth)W;
    m.encodedSize = SIZE;
    A(3, "forlit.size_formula", varintFORSize(&m) == SIZE);
    size_t w = varintFOREncode(dst, v, N, &m);
    A(3, "forlit.returned_eq_advertised", w == SIZE);
    A(16, "forlit.getcount", varintFORGetCount(dst) == N);
    A(16, "forlit.getmin_width", varintFORGetMinValue(dst) == MINV && varintFORGetOffsetWidth(dst) == W);
#if ON(2)
    uint64_t out[N];
    A(2, "forlit.decode_count", varintFORDecode(dst, out, N) == N);
    for (unsigned i = 0; i < N; i++)
        A(2, "forlit.roundtrip", out[i] == v[i]);
    A(2, "forlit.getat", varintFORGetAt(dst, k) == v[k]);
    uint64_t blk[3];
    A(2, "forlit.decodeblock_count", varintFORDecodeBlock(dst, blk, N - 3, 3) == 3);
    A(2, "forlit.decodeblock", blk[0] == v[N - 3] && blk[1] == a && blk[2] == b);
#endif
#if ON(13)
    uint64_t small[N - 1];
    A(13, "forlit.over_capacity_fails", varintFORDecode(dst, small, N - 1) == 0);
#endif
    VP_REACH();
}
