/* Group varint: N fields (compile-time).  C02 round trip + field access,
 * C03 exact size (varintGroupSize), C13 capacity, C16 self-measured size. */
#include "arr.h"
#include "varintGroup.h"
#ifndef N
#define N 3
#endif
#define MAXSIZE (1 + (N * 2 + 7) / 8 + N * 8 + 3)
static unsigned grp_width(uint64_t v) { /* documented widths 1, 2, 4, 8 */
    unsigned b = ref_bytes(v);
    return b <= 1 ? 1 : b <= 2 ? 2 : b <= 4 ? 4 : 8;
}
void harness(void) {
#ifdef LITN
    /* many-field instance (up to VARINT_GROUP_MAX_FIELDS = 64): literal fields of mixed widths, the last two symbolic */
    VP_IN(uint64_t, ya);
    VP_IN(uint64_t, yb);
    uint64_t v[N];
    for (unsigned i = 0; i < N; i++)
        v[i] = (i % 4 == 0) ? 7 : (i % 4 == 1) ? 300 : (i % 4 == 2) ? 70000 : 0x100000000ull;
    v[N - 2] = ya;
    v[N - 1] = yb;
#else
    VP_IN_ARR(uint64_t, v, N);
#endif
    VP_IN_ARR(uint8_t, init, MAXSIZE);
    VP_IN_ARR(uint8_t, junk, MAXSIZE);
    VP_IN(uint8_t, k);
    VP_ASSUME(k < N);
    unsigned truth = 1 + (N * 2 + 7) / 8;
    for (unsigned i = 0; i < N; i++)
        truth += grp_width(v[i]);
    uint8_t dst[MAXSIZE];
    for (unsigned i = 0; i < MAXSIZE; i++)
        dst[i] = init[i];
    size_t promised = varintGroupSize(v, N);
    size_t w = varintGroupEncode(dst, v, N);
    A(3, "group.size_exact", promised == truth && w == promised);
    for (unsigned i = 0; i < MAXSIZE; i++)
        if (i >= promised)
            A(3, "group.no_write_beyond_size", dst[i] == init[i]);
    uint8_t enc[MAXSIZE];
    for (unsigned i = 0; i < MAXSIZE; i++)
        enc[i] = i < w ? dst[i] : junk[i];
#if ON(2)
    uint64_t out[N];
    uint8_t fc = 0;
    size_t r = varintGroupDecode(enc, out, &fc, N);
    A(2, "group.decode_len_and_count", r == w && fc == N);
    for (unsigned i = 0; i < N; i++)
        A(2, "group.roundtrip", out[i] == v[i]);
    uint64_t fv = ~v[k];
    size_t fo = varintGroupGetField(enc, k, &fv);
    A(2, "group.getfield", fo != 0 && fv == v[k]);
#endif
#if ON(13)
#ifndef CAP
#define CAP (N - 1)
#endif
    uint64_t small[CAP > 0 ? CAP : 1];
    uint8_t fc2 = 0;
    A(13, "group.decode_over_capacity_fails", varintGroupDecode(enc, small, &fc2, CAP) == 0);
#endif
#if ON(16)
    A(16, "group.getsize_eq_written", varintGroupGetSize(enc) == w);
    A(16, "group.getfieldcount", varintGroupGetFieldCount(enc) == N);
    A(16, "group.getfieldwidth", varintGroupGetFieldWidth(enc, k) == grp_width(v[k]));
#endif
    VP_REACH();
}
