/* Patched frame-of-reference.  N elements, THR percentile threshold (90/95/99),
 * optional class split W = stored width 1..8 (derived by the harness from the
 * data exactly as the format defines it: width of (percentile value - min)).
 * C02 round trip (Decode with fresh meta, Decode with the encoder's meta, GetAt),
 * C03 returned <= varintPFORSize and nothing written beyond it, C16 meta truth. */
#include "arr.h"
#include "varintPFOR.h"
#include "varintTagged.h"
#define VP_ALLOC_SIZES X(0) X(8) X(16) X(24) X(32) X(40) X(48) X(64) X(80)
#include "vp_alloc.inc"
#ifndef N
#define N 3
#endif
#ifndef THR
#define THR 95
#endif
#define MAXSIZE (9 + 1 + 1 + N * 8 + 1 + N * 10 + 4)

void harness(void) {
    VP_IN_ARR(uint64_t, v, N);
    VP_IN_ARR(uint8_t, init, MAXSIZE);
    VP_IN_ARR(uint8_t, junk, MAXSIZE);
    VP_IN(uint32_t, k);
    VP_ASSUME(k < N);
    /* format-level ground truth: sorted copy, min, percentile value, width, exceptions */
    uint64_t s[N];
    for (unsigned i = 0; i < N; i++)
        s[i] = v[i];
    for (unsigned i = 1; i < N; i++)
        for (unsigned j = i; j > 0 && s[j - 1] > s[j]; j--) {
            uint64_t t = s[j - 1];
            s[j - 1] = s[j];
            s[j] = t;
        }
    unsigned ti = (N * THR) / 100;
    if (ti >= N)
        ti = N - 1;
    uint64_t mn = s[0], tv = s[ti];
    unsigned width = ref_bytes(tv - mn);
#ifdef W
    VP_ASSUME(width == W);
#endif
#ifdef MW
    VP_ASSUME(ref_tagged_len(mn) == MW);
#endif
    unsigned nexc = 0;
    for (unsigned i = 0; i < N; i++)
        if (v[i] > tv)
            nexc++;
#if defined(VP_KF_EXCLUDE_PFOR_MARKER) || defined(VP_KF_ONLY_PFOR_MARKER)
    /* region of known finding PFOR_MARKER: an in-range value whose offset is the all-ones marker */
    int region = 0;
    for (unsigned i = 0; i < N; i++)
        if (v[i] <= tv && (v[i] - mn) == (width >= 8 ? UINT64_MAX : ((1ull << (8 * width)) - 1)))
            region = 1;
#ifdef VP_KF_EXCLUDE_PFOR_MARKER
    VP_ASSUME(!region);
#else
    VP_ASSUME(region);
#endif
#endif

    uint8_t dst[MAXSIZE];
    for (unsigned i = 0; i < MAXSIZE; i++)
        dst[i] = init[i];
    varintPFORMeta m;
    size_t w = varintPFOREncode(dst, v, N, THR, &m);
    size_t promised = varintPFORSize(&m);
    A(3, "pfor.returned_le_size", w <= promised);
    A(3, "pfor.size_within_buffer", promised <= MAXSIZE);
    for (unsigned i = 0; i < MAXSIZE; i++)
        if (i >= promised)
            A(3, "pfor.no_write_beyond_size", dst[i] == init[i]);
    A(16, "pfor.meta.count", m.count == N);
    A(16, "pfor.meta.min", m.min == mn);
    A(16, "pfor.meta.threshold", m.threshold == THR && m.thresholdValue == tv);
    A(16, "pfor.meta.width_minimal_for_percentile_range", m.width >= width && m.width <= 8);
    A(16, "pfor.meta.exception_count_is_number_of_outliers", m.exceptionCount >= nexc && m.exceptionCount <= N);
    A(16, "pfor.meta.marker", m.exceptionMarker == (m.width >= 8 ? UINT64_MAX : ((1ull << (8 * m.width)) - 1)));
    A(16, "pfor.leak", vp_live == 0);

#ifndef PART
#define PART 1
#endif
#if ON(2) || ON(16)
    /* decoder sees only the bytes the encoder reported: the tail is unrelated junk */
    uint8_t enc[MAXSIZE];
    for (unsigned i = 0; i < MAXSIZE; i++)
        enc[i] = i < w ? dst[i] : junk[i];
#if PART == 1
    varintPFORMeta dm;
    dm.width = 0; /* documented: width 0 = read the header */
    uint64_t out[N];
    size_t got = varintPFORDecode(enc, out, &dm);
    A(2, "pfor.decode_count", got == N);
    for (unsigned i = 0; i < N; i++)
        A(2, "pfor.roundtrip", out[i] == v[i]);
    A(16, "pfor.readmeta", dm.count == N && dm.min == mn && dm.width == m.width && dm.exceptionCount == m.exceptionCount &&
                               dm.exceptionMarker == m.exceptionMarker);
#endif
#endif
#if ON(2) && PART == 2
    uint64_t out2[N];
    varintPFORMeta m2 = m;
    size_t got2 = varintPFORDecode(enc, out2, &m2);
    A(2, "pfor.decode_with_encoder_meta_count", got2 == N);
    for (unsigned i = 0; i < N; i++)
        A(2, "pfor.roundtrip_with_encoder_meta", out2[i] == v[i]);
#endif
#if ON(2) && PART == 3
    A(2, "pfor.getat", varintPFORGetAt(enc, k, &m) == v[k]);
#endif
    VP_REACH();
}
