/* Run-length codec, N elements.  HDR=0: varintRLEEncode/Decode/GetAt/GetRunCount;
 * HDR=1: EncodeWithHeader/DecodeWithHeader/GetCount.
 * C02 round trip + random access, C03 MaxSize/Size, C13 capacity, C16 meta. */
#include "arr.h"
#include "varintRLE.h"
#ifndef N
#define N 3
#endif
#ifndef HDR
#define HDR 0
#endif
#ifdef REPL
#define MAXSIZE 48
#else
#define MAXSIZE (N * 10 + 9 + 2)
#endif
void harness(void) {
#ifdef REPL
    /* semi-concrete boundary instance: REPL copies of a literal value followed by N - REPL copies of a symbolic one,
     * so that run lengths reach the tagged-varint boundaries (240/241, 255/256, 2287/2288) with two symbolic values */
    /* (the repeated value is a literal so that the run structure stays concrete; the trailing value is symbolic) */
    const uint64_t a = 5;
    VP_IN(uint64_t, b);
    VP_ASSUME(a != b);
    uint64_t v[N];
    for (unsigned i = 0; i < N; i++)
        v[i] = i < REPL ? a : b;
#else
    VP_IN_ARR(uint64_t, v, N);
#endif
    VP_IN_ARR(uint8_t, init, MAXSIZE);
    VP_IN_ARR(uint8_t, junk, MAXSIZE);
    VP_IN(uint32_t, k);
    VP_ASSUME(k < N);
    /* ground truth */
    unsigned runs = 1, truth = 0, runlen = 1;
    for (unsigned i = 1; i < N; i++) {
        if (v[i] == v[i - 1])
            runlen++;
        else {
            truth += ref_tagged_len(runlen) + ref_tagged_len(v[i - 1]);
            runs++;
            runlen = 1;
        }
    }
    truth += ref_tagged_len(runlen) + ref_tagged_len(v[N - 1]);
    uint8_t dst[MAXSIZE];
    for (unsigned i = 0; i < MAXSIZE; i++)
        dst[i] = init[i];
    varintRLEMeta m;
    size_t maxb = varintRLEMaxSize(N);
#if HDR
    size_t w = varintRLEEncodeWithHeader(dst, v, N, &m);
    A(3, "rle.hdr.returned_le_maxsize", w <= maxb);
    for (unsigned i = 0; i < MAXSIZE; i++)
        if (i >= maxb)
            A(3, "rle.hdr.no_write_beyond_maxsize", dst[i] == init[i]);
    A(16, "rle.hdr.meta", m.count == N && m.runCount == runs && m.encodedSize == w && w == truth + 1);
#else
    size_t sz = varintRLESize(v, N);
    size_t w = varintRLEEncode(dst, v, N, &m);
    A(3, "rle.size_exact", sz == truth && w == sz);
    A(3, "rle.returned_le_maxsize", w <= maxb);
    for (unsigned i = 0; i < MAXSIZE; i++)
        if (i >= sz)
            A(3, "rle.no_write_beyond_size", dst[i] == init[i]);
    A(16, "rle.meta", m.count == N && m.runCount == runs && m.encodedSize == w);
    varintRLEMeta am;
    varintRLEAnalyze(v, N, &am);
    A(16, "rle.analyze", am.count == N && am.runCount == runs && am.encodedSize == w);
#endif
    uint8_t enc[MAXSIZE];
    for (unsigned i = 0; i < MAXSIZE; i++)
        enc[i] = i < w ? dst[i] : junk[i];
#if ON(2)
    uint64_t out[N];
#if HDR
    size_t r = varintRLEDecodeWithHeader(enc, out, N);
#else
    size_t r = varintRLEDecode(enc, out, N);
    A(2, "rle.getat", varintRLEGetAt(enc, k) == v[k]);
#endif
    A(2, "rle.decode_count", r == N);
    for (unsigned i = 0; i < N; i++)
        A(2, "rle.roundtrip", out[i] == v[i]);
#endif
#if ON(13)
#ifndef CAP
#define CAP (N - 1)
#endif
    uint64_t small[CAP > 0 ? CAP : 1];
#if HDR
    A(13, "rle.hdr.over_capacity_fails", varintRLEDecodeWithHeader(enc, small, CAP) == 0);
#else
    /* documented: clamps to capacity (a correct prefix) */
    size_t pr = varintRLEDecode(enc, small, CAP);
    A(13, "rle.prefix_count", pr == CAP);
    for (unsigned i = 0; i < N; i++)
        if (i < CAP)
            A(13, "rle.prefix_values", small[i] == v[i]);
#endif
#endif
#if ON(16)
#if HDR
    A(16, "rle.hdr.getcount", varintRLEGetCount(enc) == N);
#else
    /* exact-size copy: the run counter is told the size, and gets exactly that many bytes */
    A(16, "rle.getruncount", varintRLEGetRunCount(enc, w) == runs);
#endif
#endif
    VP_REACH();
}
