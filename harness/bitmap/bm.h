/* bm.h — shared vocabulary of the C08 harnesses over a SCALED universe.
 *
 * The library is compiled with the MATTSTA_VARINT_VERIF hook of varintBitmap.h
 * (VARINT_VERIF_BITMAP_* on the command line), e.g. universe U = 16, ARRAY_MAX = 4,
 * BITMAP_SIZE = 2, DEFAULT_ARRAY_CAPACITY = 2.  The abstract value of a container is a
 * machine word (bit v set <=> v is a member).  Everything here is written from the
 * documentation of the container layouts in varintBitmap.h; no library function is
 * called by the oracle side.
 *
 * Well-formed ("WF") = what varintBitmapDecode builds from a consistent serialisation,
 * closed under the public mutators:
 *   ARRAY : values[0..card) strictly ascending, each < U, card <= ARRAY_MAX, card <= capacity,
 *           values points to an object of exactly capacity elements;
 *   BITMAP: bits points to BITMAP_SIZE bytes, cardinality == popcount;
 *   RUNS  : numRuns <= capacity, runs (start,length) with 1 <= length <= U-1 (65535), start+length <= U,
 *           ascending and separated (start_i > end_{i-1}), cardinality == sum of lengths.
 */
#ifndef BM_H
#define BM_H
#include "vp.h"
#include <stdbool.h>
#include <stdlib.h>
#include "varintBitmap.h"

#define U VARINT_BITMAP_MAX_VALUE
#define AMAX VARINT_BITMAP_ARRAY_MAX
#define BSZ VARINT_BITMAP_BITMAP_SIZE
#if defined(VARINT_VERIF_BITMAP_MAX_VALUE) && VARINT_BITMAP_MAX_VALUE != VARINT_VERIF_BITMAP_MAX_VALUE
#error "varintBitmap.h ignores VARINT_VERIF_BITMAP_*: the MATTSTA_VARINT_VERIF hook is missing (proposed-fixes/HOOK-bitmap.patch)"
#endif
#if U > 32
#error "bm.h is for scaled universes (U <= 32)"
#endif
#if BSZ * 8 != U
#error "BITMAP_SIZE must be U / 8"
#endif
#ifndef MAXNR
#define MAXNR 2 /* largest run count of any pre-state in this tree of queries */
#endif
#define NIN 8 /* symbolic words describing the contents of one pre-state */

typedef uint32_t set_t;
#define BIT(v) ((set_t)1 << (v))
/* members a <= v < b (a, b <= U) */
static set_t bm_rng(unsigned a, unsigned b) {
    if (a >= b)
        return 0;
    return (set_t)((((uint64_t)1 << b) - 1) & ~(((uint64_t)1 << a) - 1));
}
/* index of the lowest member of a non-empty set */
static unsigned bm_low(set_t m) {
    unsigned low = 0;
    if (!(m & 0xFFFFu)) {
        low += 16;
        m >>= 16;
    }
    if (!(m & 0xFFu)) {
        low += 8;
        m >>= 8;
    }
    if (!(m & 0xFu)) {
        low += 4;
        m >>= 4;
    }
    if (!(m & 0x3u)) {
        low += 2;
        m >>= 2;
    }
    if (!(m & 0x1u))
        low += 1;
    return low;
}
static unsigned bm_pop(set_t m) {
    unsigned c = 0;
    for (unsigned i = 0; i < U; i++)
        c += (m >> i) & 1;
    return c;
}

/* A well-formed container of the given concrete shape with symbolic contents `in`.
 *   type 0: array, `card` members, capacity `cap`
 *   type 1: bitmap; if ccard >= 0 the cardinality is assumed to be ccard
 *   type 2: `nr` runs in an array of capacity `rcap`; if ccard >= 0 total cardinality assumed ccard */
static varintBitmap *bm_mk(int type, unsigned card, unsigned cap, unsigned nr, unsigned rcap, int ccard,
                           const uint16_t *in, set_t *abs) {
    varintBitmap *vb = malloc(sizeof *vb);
    set_t m = 0;
    if (type == 0) {
        uint16_t *v = malloc(cap * sizeof(uint16_t));
        for (unsigned i = 0; i < card; i++) {
            VP_ASSUME(in[i] < U);
            if (i)
                VP_ASSUME(in[i] > in[i - 1]);
            v[i] = in[i];
            m |= BIT(in[i]);
        }
        vb->type = VARINT_BITMAP_ARRAY;
        vb->cardinality = card;
        vb->container.array.values = v;
        vb->container.array.capacity = cap;
    } else if (type == 1) {
        uint8_t *bits = malloc(BSZ);
        for (unsigned i = 0; i < BSZ; i++) {
            VP_ASSUME(in[i] < 256);
            bits[i] = (uint8_t)in[i];
            m |= (set_t)in[i] << (8 * i);
        }
        unsigned c = bm_pop(m);
        if (ccard >= 0)
            VP_ASSUME(c == (unsigned)ccard);
        vb->type = VARINT_BITMAP_BITMAP;
        vb->cardinality = c;
        vb->container.bitmap.bits = bits;
    } else {
        uint16_t *r = malloc(rcap * 2 * sizeof(uint16_t));
        unsigned end = 0, c = 0;
        for (unsigned i = 0; i < nr; i++) {
            unsigned s = in[2 * i], l = in[2 * i + 1];
            /* a run length is a uint16_t, i.e. at most 65535 = U - 1 at the real constants */
            VP_ASSUME(l >= 1 && s < U && l <= U - 1 && s + l <= U);
            if (i)
                VP_ASSUME(s > end);
            r[2 * i] = (uint16_t)s;
            r[2 * i + 1] = (uint16_t)l;
            end = s + l;
            c += l;
            m |= bm_rng(s, s + l);
        }
        if (ccard >= 0)
            VP_ASSUME(c == (unsigned)ccard);
        vb->type = VARINT_BITMAP_RUNS;
        vb->cardinality = c;
        vb->container.runs.runs = r;
        vb->container.runs.numRuns = nr;
        vb->container.runs.capacity = rcap;
    }
    *abs = m;
    return vb;
}

/* abstraction function: reads the representation as documented in varintBitmap.h */
static set_t bm_abs(const varintBitmap *vb) {
    set_t m = 0;
    if (vb->type == VARINT_BITMAP_ARRAY) {
        for (unsigned i = 0; i < AMAX; i++)
            if (i < vb->cardinality) {
                uint16_t v = vb->container.array.values[i];
                if (v < U)
                    m |= BIT(v);
            }
    } else if (vb->type == VARINT_BITMAP_BITMAP) {
        for (unsigned i = 0; i < BSZ; i++)
            m |= (set_t)vb->container.bitmap.bits[i] << (8 * i);
    } else if (vb->type == VARINT_BITMAP_RUNS) {
        for (unsigned i = 0; i < MAXNR; i++)
            if (i < vb->container.runs.numRuns) {
                unsigned s = vb->container.runs.runs[2 * i], l = vb->container.runs.runs[2 * i + 1];
                if (s <= U && l <= U && s + l <= U)
                    m |= bm_rng(s, s + l);
            }
    }
    return m;
}

/* representation invariant */
static bool bm_wf(const varintBitmap *vb) {
    if (!vb)
        return false;
    if (vb->type == VARINT_BITMAP_ARRAY) {
        const uint16_t *v = vb->container.array.values;
        if (!v || vb->cardinality > AMAX || vb->cardinality > vb->container.array.capacity)
            return false;
#ifndef VP_NATIVE
        if (__CPROVER_OBJECT_SIZE(v) != vb->container.array.capacity * sizeof(uint16_t))
            return false;
#endif
        for (unsigned i = 0; i < AMAX; i++)
            if (i < vb->cardinality) {
                if (v[i] >= U)
                    return false;
                if (i && v[i] <= v[i - 1])
                    return false;
            }
        return true;
    }
    if (vb->type == VARINT_BITMAP_BITMAP) {
        if (!vb->container.bitmap.bits)
            return false;
#ifndef VP_NATIVE
        if (__CPROVER_OBJECT_SIZE(vb->container.bitmap.bits) != BSZ)
            return false;
#endif
        return vb->cardinality == bm_pop(bm_abs(vb));
    }
    if (vb->type == VARINT_BITMAP_RUNS) {
        const uint16_t *r = vb->container.runs.runs;
        unsigned n = vb->container.runs.numRuns;
        if (!r || n > vb->container.runs.capacity || n > MAXNR)
            return false;
#ifndef VP_NATIVE
        if (__CPROVER_OBJECT_SIZE(r) != vb->container.runs.capacity * 2 * sizeof(uint16_t))
            return false;
#endif
        unsigned end = 0, c = 0;
        for (unsigned i = 0; i < MAXNR; i++)
            if (i < n) {
                unsigned s = r[2 * i], l = r[2 * i + 1];
                if (l < 1 || l > U - 1 || s + l > U)
                    return false;
                if (i && s <= end)
                    return false;
                end = s + l;
                c += l;
            }
        return c == vb->cardinality;
    }
    return false;
}

/* every observer of the property agrees with the abstract value S (x: symbolic probe value) */
#define OBS_SCALAR 1 /* Contains, Cardinality, IsEmpty */
#define OBS_ITER 2   /* iterator sequence */
#define OBS_ARRAY 4  /* ToArray */
#define OBS_ALL 7
static void bm_observe(const varintBitmap *vb, set_t S, uint16_t x, int what) {
    if (what & OBS_SCALAR) {
    VP_ASSERT("P:obs.contains", varintBitmapContains(vb, x) == (bool)((S >> x) & 1));
    VP_ASSERT("P:obs.cardinality", varintBitmapCardinality(vb) == bm_pop(S));
    VP_ASSERT("P:obs.is_empty", varintBitmapIsEmpty(vb) == (S == 0));
    }
    /* iterator: exactly the members, ascending, then false (and false again) */
    if (what & OBS_ITER) {
    varintBitmapIterator it = varintBitmapCreateIterator(vb);
    set_t rest = S;
    for (unsigned k = 0; k <= U; k++) {
        bool more = varintBitmapIteratorNext(&it);
        if (rest == 0) {
            VP_ASSERT("P:obs.iter_ends", !more);
            break;
        }
        unsigned low = bm_low(rest);
        VP_ASSERT("P:obs.iter_next", more && it.currentValue == low);
        rest &= rest - 1;
    }
    VP_ASSERT("P:obs.iter_stays_ended", !varintBitmapIteratorNext(&it));
    }
    /* array export: count, order, nothing written beyond count */
    if (what & OBS_ARRAY) {
    uint16_t out[U + 1];
    for (unsigned i = 0; i <= U; i++)
        out[i] = 0xFFFF;
    uint32_t n = varintBitmapToArray(vb, out);
    VP_ASSERT("P:obs.toarray_count", n == bm_pop(S));
    set_t rest = S;
    for (unsigned i = 0; i <= U; i++) {
        if (rest == 0) {
            VP_ASSERT("P:obs.toarray_tail_untouched", out[i] == 0xFFFF);
        } else {
            unsigned low = bm_low(rest);
            VP_ASSERT("P:obs.toarray_value", out[i] == low);
            rest &= rest - 1;
        }
    }
    }
}

/* operand of a call that must not modify it */
typedef struct bm_snap {
    varintBitmapContainerType type;
    uint32_t card;
    set_t abs;
} bm_snap;
static bm_snap bm_snapshot(const varintBitmap *vb) {
    bm_snap s = {vb->type, vb->cardinality, bm_abs(vb)};
    return s;
}
static bool bm_same(const varintBitmap *vb, bm_snap s) {
    return bm_wf(vb) && vb->type == s.type && vb->cardinality == s.card && bm_abs(vb) == s.abs;
}

/* shape macros -> bm_mk arguments.  Operand k is described by Tk, CARDk, CAPk, NRk, RCAPk, CCARDk */
#ifndef CARD1
#define CARD1 0
#endif
#ifndef CAP1
#define CAP1 CARD1
#endif
#ifndef NR1
#define NR1 0
#endif
#ifndef RCAP1
#define RCAP1 NR1
#endif
#ifndef CCARD1
#define CCARD1 (-1)
#endif
#ifndef T2
#define T2 0
#endif
#ifndef CARD2
#define CARD2 0
#endif
#ifndef CAP2
#define CAP2 CARD2
#endif
#ifndef NR2
#define NR2 0
#endif
#ifndef RCAP2
#define RCAP2 NR2
#endif
#ifndef CCARD2
#define CCARD2 (-1)
#endif
#define BM_MK1(in, abs) bm_mk(T1, CARD1, CAP1, NR1, RCAP1, CCARD1, in, abs)
#define BM_MK2(in, abs) bm_mk(T2, CARD2, CAP2, NR2, RCAP2, CCARD2, in, abs)
#endif
