/* C08 inductive step for the operations that are loops over other public operations, verified MODULARLY
 * (scaled universe, see bm.h).  Under CBMC the driver redirects the caller's calls
 *     varintBitmapAdd    -> contract_add        varintBitmapRemove -> contract_remove
 * (goto-instrument --replace-calls, Query(replace_calls=...)).  The contracts are exactly what the one-step
 * queries of step.c prove for every well-formed shape: on a well-formed container with abstract value G and a
 * value v of the universe, Add returns (v not in G) and leaves a well-formed container of value G + {v};
 * Remove returns (v in G) and leaves G - {v}.  The contract keeps G in a ghost word and leaves the real object
 * untouched; it asserts its own preconditions (same object every time, object well-formed at the first call and
 * not modified behind the callee's back afterwards), so the caller's real loop, bounds, range/threshold tests,
 * iterator and Contains calls are what is executed.
 * The set-algebra queries (OP 13..16) additionally redirect the read-only callees
 *     varintBitmapContains -> contract_contains     varintBitmapIteratorNext -> contract_next
 * so they must be compiled with -DOBS=0 (the observers would otherwise observe the contracts).
 * Natively (replay) nothing is redirected: the real callee runs and the final real object is compared.
 *
 *   OP : 10 AddRange(a,b)   11 RemoveRange(a,b)   12 AddMany(values, NMANY)
 *        13 Or   14 And   15 Xor   16 AndNot     (operand 2 = shape T2..., or the same object with -DALIAS)
 */
#include "bm.h"
#include <string.h>
#define VP_ALLOC_SIZES X(0) X(1) X(2) X(3) X(4) X(6) X(8) X(10) X(12) X(14) X(16) X(18) X(20) X(22) X(24) X(26) X(28) X(30) X(32)
#include "vp_alloc.inc"

#ifndef NMANY
#define NMANY 0
#endif
#ifndef OBS
#define OBS OBS_ALL
#endif

/* cheap identity of a representation (header fields and storage pointer); the full comparison bm_same()
 * is made when the caller returns */
typedef struct hdr {
    varintBitmapContainerType type;
    uint32_t card;
    const void *store;
    uint32_t aux;
} hdr;
static hdr hdr_of(const varintBitmap *vb) {
    /* the three storage pointers share offset 0 of the union, capacity / numRuns follow */
    hdr h = {vb->type, vb->cardinality, vb->container.array.values,
             vb->type == VARINT_BITMAP_BITMAP ? 0 : vb->container.array.capacity};
    return h;
}
static bool hdr_eq(hdr a, hdr b) {
    return a.type == b.type && a.card == b.card && a.store == b.store && a.aux == b.aux;
}

/* ---- ghost state of the mutating callee contracts ---- */
static set_t g_set;               /* abstract value of the object the callee is applied to */
static unsigned g_calls;          /* number of redirected calls */
static const varintBitmap *g_obj; /* that object */
static bm_snap g_first;           /* its real representation at the first call */
static hdr g_firsthdr;

static void contract_enter(const varintBitmap *vb, uint16_t v) {
    if (g_calls == 0) {
        g_obj = vb;
        VP_ASSERT("P:mod.callee_pre_wf", bm_wf(vb));
        g_first = bm_snapshot(vb);
        g_firsthdr = hdr_of(vb);
        g_set = g_first.abs;
    } else {
        VP_ASSERT("P:mod.callee_same_object", vb == g_obj);
        VP_ASSERT("P:mod.object_only_changed_by_callee", hdr_eq(hdr_of(vb), g_firsthdr));
    }
    VP_ASSERT("P:mod.callee_value_in_universe", v < U);
    g_calls++;
}
bool contract_add(varintBitmap *vb, uint16_t v) {
    contract_enter(vb, v);
    bool was = (g_set >> v) & 1;
    g_set |= BIT(v);
    return !was;
}
bool contract_remove(varintBitmap *vb, uint16_t v) {
    contract_enter(vb, v);
    bool was = (g_set >> v) & 1;
    g_set &= ~BIT(v);
    return was;
}

/* ---- contracts of the read-only callees used by the set algebra (proved by the OP=0 queries of step.c for every
 * well-formed shape): Contains(vb, v) <=> v in abs(vb); the k-th call of IteratorNext on a fresh iterator returns
 * true with the k-th smallest member while k < |abs(it->vb)|, false afterwards, for ever.  The iterated / queried
 * object must be one of the two operands, unmodified.  Ghost of an iterator: it->position counts the values
 * delivered (the callers never read that field). ---- */
static const varintBitmap *g_op[2];
static hdr g_ophdr[2];
static set_t g_opabs[2];
static uint16_t g_mem[2][U]; /* members in ascending order */
static unsigned g_n[2];
static void operand_register(int i, const varintBitmap *vb, set_t S) {
    g_op[i] = vb;
    g_ophdr[i] = hdr_of(vb);
    g_opabs[i] = S;
    set_t rest = S;
    unsigned n = 0;
    for (unsigned k = 0; k < U; k++)
        if (rest) {
            g_mem[i][n++] = (uint16_t)bm_low(rest);
            rest &= rest - 1;
        }
    g_n[i] = n;
}
static int contract_operand(const varintBitmap *vb) {
    VP_ASSERT("P:mod.reader_on_operand", vb == g_op[0] || vb == g_op[1]);
    int i = vb == g_op[0] ? 0 : 1;
    VP_ASSERT("P:mod.operand_intact_during_call", hdr_eq(hdr_of(vb), g_ophdr[i]));
    return i;
}
bool contract_contains(const varintBitmap *vb, uint16_t v) {
    int i = contract_operand(vb);
    VP_ASSERT("P:mod.callee_value_in_universe", v < U);
    return (g_opabs[i] >> v) & 1;
}
bool contract_next(varintBitmapIterator *it) {
    int i = contract_operand(it->vb);
    uint32_t k = it->position;
    if (k >= U || k >= g_n[i]) {
        it->hasValue = false;
        return false;
    }
    it->currentValue = g_mem[i][k];
    it->position = k + 1;
    it->hasValue = true;
    return true;
}

/* value of `res` after the call: the ghost if the callee was invoked on it, its real representation otherwise
 * (in which case it must also be well-formed and all observers must agree) */
static set_t final_value(const varintBitmap *res, uint16_t x) {
    if (g_calls) {
        VP_ASSERT("P:mod.result_is_callee_object", res == g_obj);
        VP_ASSERT("P:mod.object_only_changed_by_callee", bm_same(res, g_first));
        return g_set;
    }
    VP_ASSERT("P:result.wf", bm_wf(res));
    set_t S = bm_abs(res);
    bm_observe(res, S, x, OBS);
    return S;
}

void harness(void) {
    VP_IN_ARR(uint16_t, in1, NIN);
    VP_IN_ARR(uint16_t, in2, NIN);
    VP_IN_ARR(uint16_t, many, NMANY);
    VP_IN(uint16_t, a);
    VP_IN(uint16_t, b);
    VP_IN(uint16_t, x);
    /* the scaled universe stands for uint16_t: every operand is a value of the universe (so a range
     * bound is at most U-1, like 65535) */
    VP_ASSUME(a < U && b < U && x < U);
    (void)in2;
    (void)many;
    set_t S1, want;
    varintBitmap *v1 = BM_MK1(in1, &S1);
    VP_ASSERT("P:harness.pre_wf", bm_wf(v1) && bm_abs(v1) == S1);
#if OP == 10
    varintBitmapAddRange(v1, a, b);
    want = S1 | bm_rng(a, b);
    VP_ASSERT("P:addrange.value", final_value(v1, x) == want);
#elif OP == 11
    varintBitmapRemoveRange(v1, a, b);
    want = S1 & ~bm_rng(a, b);
    VP_ASSERT("P:removerange.value", final_value(v1, x) == want);
#elif OP == 12
    uint16_t *vals = vp_exact(NMANY * sizeof(uint16_t));
    want = S1;
    for (unsigned i = 0; i < NMANY; i++) {
        VP_ASSUME(many[i] < U);
        vals[i] = many[i];
        want |= BIT(many[i]);
    }
    varintBitmapAddMany(v1, vals, NMANY);
    VP_ASSERT("P:addmany.value", final_value(v1, x) == want);
    for (unsigned i = 0; i < NMANY; i++)
        VP_ASSERT("P:addmany.input_unchanged", vals[i] == many[i]);
#else
    set_t S2;
#ifdef ALIAS
    varintBitmap *v2 = v1;
    S2 = S1;
#else
    varintBitmap *v2 = BM_MK2(in2, &S2);
    VP_ASSERT("P:harness.pre_wf", bm_wf(v2) && bm_abs(v2) == S2);
#endif
    bm_snap s1 = bm_snapshot(v1), s2 = bm_snapshot(v2);
    operand_register(0, v1, S1);
    operand_register(1, v2, S2);
#if OP == 13
    varintBitmap *res = varintBitmapOr(v1, v2);
    want = S1 | S2;
#elif OP == 14
    varintBitmap *res = varintBitmapAnd(v1, v2);
    want = S1 & S2;
#elif OP == 15
    varintBitmap *res = varintBitmapXor(v1, v2);
    want = S1 ^ S2;
#elif OP == 16
    varintBitmap *res = varintBitmapAndNot(v1, v2);
    want = S1 & ~S2;
#else
#error "OP"
#endif
    VP_ASSERT("P:algebra.result_fresh", res != NULL && res != v1 && res != v2);
    VP_ASSERT("P:algebra.value", final_value(res, x) == want);
    VP_ASSERT("P:algebra.operand1_unchanged", bm_same(v1, s1));
    VP_ASSERT("P:algebra.operand2_unchanged", bm_same(v2, s2));
#endif
    VP_REACH();
}
