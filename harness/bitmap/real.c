/* C08 one-step checks at the REAL constants (universe 65536, ARRAY_MAX 4096, 8192-byte bitmap) on small shapes,
 * for the numeric effects scaling cannot show: values up to 65535, uint16_t wrap in start + j, the int
 * promotions in the run tests, the run iterator's position encoding, byte index 8191.
 *
 * The universe does not fit a machine word, so the abstract value is a short ascending list of disjoint
 * intervals (`desc`), membership in the result is compared for a SYMBOLIC probe x (i.e. for every x), cardinality
 * against the sum of the interval lengths, the iterator against the k-th member of the list.
 *
 *   pre-state  T1=0 array  CARD1 (<= 4) symbolic ascending values, capacity CAP1
 *              T1=1 bitmap all zero except CARD1 (<= 2) symbolic members   (reachable: bitmap, Clear, Add)
 *              T1=2 runs   NR1 (<= 2) symbolic runs, capacity RCAP1; CCARD1 >= 0 fixes the total cardinality
 *   OP         0 observe  1 Add(a)  2 Remove(a)  3 Clear  4 Clone  5 Encode->Decode
 *              10 AddRange(a,b)     restricted to: empty range, length <= 2, or length > ARRAY_MAX on an empty set
 *              11 RemoveRange(a,b)  restricted to: empty range or length <= 2
 *   not run on a bitmap-typed state (65536-step loops): iterator, ToArray, Remove of a member (bitmap -> array).
 */
#include "vp.h"
#include <stdbool.h>
#include <stdlib.h>
#include <string.h>
#include "varintBitmap.h"
#define VP_ALLOC_SIZES X(0) X(2) X(4) X(6) X(8) X(10) X(12) X(14) X(16) X(20) X(24) X(32) X(64) X(8192)
#include "vp_alloc.inc"

#if VARINT_BITMAP_MAX_VALUE != 65536 || VARINT_BITMAP_ARRAY_MAX != 4096
#error "real.c is for the unscaled constants"
#endif
#ifndef CARD1
#define CARD1 0
#endif
#ifndef CAP1
#define CAP1 CARD1
#endif
#ifndef NR1
#define NR1 0
#endif
#ifndef RCAP1
#define RCAP1 NR1
#endif
#ifndef CCARD1
#define CCARD1 (-1)
#endif
#define NIN 4
#define MAXIV 8 /* intervals in a description */
#define KMAX 6  /* members compared through the iterator / ToArray */

typedef struct desc {
    unsigned n;
    uint32_t s[MAXIV], l[MAXIV]; /* [s, s+l), ascending by s, disjoint, l may be 0 */
} desc;
static bool d_in(const desc *d, uint32_t x) {
    for (unsigned i = 0; i < MAXIV; i++)
        if (i < d->n && x >= d->s[i] && x - d->s[i] < d->l[i])
            return true;
    return false;
}
static uint32_t d_card(const desc *d) {
    uint32_t c = 0;
    for (unsigned i = 0; i < MAXIV; i++)
        if (i < d->n)
            c += d->l[i];
    return c;
}
/* k-th member (0-based) */
static bool d_nth(const desc *d, uint32_t k, uint32_t *out) {
    for (unsigned i = 0; i < MAXIV; i++)
        if (i < d->n) {
            if (k < d->l[i]) {
                *out = d->s[i] + k;
                return true;
            }
            k -= d->l[i];
        }
    return false;
}
static void d_insert_at(desc *d, unsigned p, uint32_t s, uint32_t l) {
    for (unsigned i = MAXIV - 1; i > 0; i--)
        if (i > p && i <= d->n) {
            d->s[i] = d->s[i - 1];
            d->l[i] = d->l[i - 1];
        }
    d->s[p] = s;
    d->l[p] = l;
    d->n++;
}
static void d_add(desc *d, uint32_t a) {
    if (d_in(d, a))
        return;
    unsigned p = 0;
    for (unsigned i = 0; i < MAXIV; i++)
        if (i < d->n && d->s[i] < a)
            p = i + 1;
    d_insert_at(d, p, a, 1);
}
static void d_remove(desc *d, uint32_t a) {
    for (unsigned i = 0; i < MAXIV; i++)
        if (i < d->n && a >= d->s[i] && a - d->s[i] < d->l[i]) {
            uint32_t e = d->s[i] + d->l[i];
            d->l[i] = a - d->s[i];
            d_insert_at(d, i + 1, a + 1, e - (a + 1));
            return;
        }
}

/* abstraction: membership of x read from the representation as documented in varintBitmap.h */
static bool r_member(const varintBitmap *vb, uint32_t x) {
    if (vb->type == VARINT_BITMAP_ARRAY) {
        for (unsigned i = 0; i < MAXIV; i++)
            if (i < vb->cardinality && vb->container.array.values[i] == x)
                return true;
        return false;
    }
    if (vb->type == VARINT_BITMAP_BITMAP)
        return (vb->container.bitmap.bits[x >> 3] >> (x & 7)) & 1;
    for (unsigned i = 0; i < 2; i++)
        if (i < vb->container.runs.numRuns) {
            uint32_t s = vb->container.runs.runs[2 * i], l = vb->container.runs.runs[2 * i + 1];
            if (x >= s && x - s < l)
                return true;
        }
    return false;
}
/* representation invariant (bitmap: cardinality == popcount follows from r_member == description for every x
 * together with cardinality == size of the description, both asserted by check_state) */
static bool r_wf(const varintBitmap *vb) {
    if (!vb)
        return false;
    if (vb->type == VARINT_BITMAP_ARRAY) {
        const uint16_t *v = vb->container.array.values;
        if (!v || vb->cardinality > MAXIV || vb->cardinality > vb->container.array.capacity)
            return false;
#ifndef VP_NATIVE
        if (__CPROVER_OBJECT_SIZE(v) != vb->container.array.capacity * sizeof(uint16_t))
            return false;
#endif
        for (unsigned i = 1; i < MAXIV; i++)
            if (i < vb->cardinality && v[i] <= v[i - 1])
                return false;
        return true;
    }
    if (vb->type == VARINT_BITMAP_BITMAP) {
#ifndef VP_NATIVE
        if (__CPROVER_OBJECT_SIZE(vb->container.bitmap.bits) != VARINT_BITMAP_BITMAP_SIZE)
            return false;
#endif
        return vb->container.bitmap.bits != NULL;
    }
    if (vb->type == VARINT_BITMAP_RUNS) {
        const uint16_t *r = vb->container.runs.runs;
        unsigned n = vb->container.runs.numRuns;
        if (!r || n > vb->container.runs.capacity || n > 2)
            return false;
#ifndef VP_NATIVE
        if (__CPROVER_OBJECT_SIZE(r) != vb->container.runs.capacity * 2 * sizeof(uint16_t))
            return false;
#endif
        uint32_t end = 0, c = 0;
        for (unsigned i = 0; i < 2; i++)
            if (i < n) {
                uint32_t s = r[2 * i], l = r[2 * i + 1];
                if (l < 1 || s + l > 65536)
                    return false;
                if (i && s <= end)
                    return false;
                end = s + l;
                c += l;
            }
        return c == vb->cardinality;
    }
    return false;
}

static void check_state(const varintBitmap *vb, const desc *E, uint16_t x) {
    VP_ASSERT("P:real.wf", r_wf(vb));
    VP_ASSERT("P:real.value", r_member(vb, x) == d_in(E, x));
    VP_ASSERT("P:real.obs.contains", varintBitmapContains(vb, x) == d_in(E, x));
    VP_ASSERT("P:real.obs.cardinality", varintBitmapCardinality(vb) == d_card(E));
    VP_ASSERT("P:real.obs.is_empty", varintBitmapIsEmpty(vb) == (d_card(E) == 0));
    if (vb->type == VARINT_BITMAP_BITMAP)
        return;
    varintBitmapIterator it = varintBitmapCreateIterator(vb);
    for (unsigned k = 0; k <= KMAX; k++) {
        uint32_t want = 0;
        bool have = d_nth(E, k, &want);
        if (!have) {
            VP_ASSERT("P:real.obs.iter_ends", !varintBitmapIteratorNext(&it));
            VP_ASSERT("P:real.obs.iter_stays_ended", !varintBitmapIteratorNext(&it));
            break;
        }
        if (k == KMAX)
            break; /* longer sets: only the first KMAX members are compared */
        VP_ASSERT("P:real.obs.iter_next", varintBitmapIteratorNext(&it) && it.currentValue == want);
    }
    if (d_card(E) <= KMAX) {
        uint16_t out[KMAX + 1];
        for (unsigned i = 0; i <= KMAX; i++)
            out[i] = 0xAAAA;
        uint16_t probe = 0xAAAA;
        uint32_t n = varintBitmapToArray(vb, out);
        VP_ASSERT("P:real.obs.toarray_count", n == d_card(E));
        for (unsigned i = 0; i <= KMAX; i++) {
            uint32_t want = 0;
            if (d_nth(E, i, &want))
                VP_ASSERT("P:real.obs.toarray_value", out[i] == want);
            else
                VP_ASSERT("P:real.obs.toarray_tail_untouched", out[i] == probe);
        }
    }
}

void harness(void) {
    VP_IN_ARR(uint16_t, in1, NIN);
    VP_IN(uint16_t, a);
    VP_IN(uint16_t, b);
    VP_IN(uint16_t, x);
    (void)a;
    (void)b;
    desc D;
    D.n = 0;
    varintBitmap *vb = malloc(sizeof *vb);
#if T1 == 0 || T1 == 1
    for (unsigned i = 0; i < CARD1; i++) {
        if (i)
            VP_ASSUME(in1[i] > in1[i - 1]);
        D.s[i] = in1[i];
        D.l[i] = 1;
    }
    D.n = CARD1;
#if T1 == 0
    uint16_t *v = malloc(CAP1 * sizeof(uint16_t));
    for (unsigned i = 0; i < CARD1; i++)
        v[i] = in1[i];
    vb->type = VARINT_BITMAP_ARRAY;
    vb->container.array.values = v;
    vb->container.array.capacity = CAP1;
#else
    uint8_t *bits = calloc(VARINT_BITMAP_BITMAP_SIZE, 1);
    for (unsigned i = 0; i < CARD1; i++)
        bits[in1[i] >> 3] |= (uint8_t)(1u << (in1[i] & 7));
    vb->type = VARINT_BITMAP_BITMAP;
    vb->container.bitmap.bits = bits;
#endif
    vb->cardinality = CARD1;
#else
    uint16_t *r = malloc(RCAP1 * 2 * sizeof(uint16_t));
    uint32_t end = 0, c = 0;
    for (unsigned i = 0; i < NR1; i++) {
        uint32_t s = in1[2 * i], l = in1[2 * i + 1];
        VP_ASSUME(l >= 1 && s + l <= 65536);
        if (i)
            VP_ASSUME(s > end);
        r[2 * i] = (uint16_t)s;
        r[2 * i + 1] = (uint16_t)l;
        D.s[i] = s;
        D.l[i] = l;
        end = s + l;
        c += l;
    }
    D.n = NR1;
    if (CCARD1 >= 0)
        VP_ASSUME(c == (uint32_t)CCARD1);
    vb->type = VARINT_BITMAP_RUNS;
    vb->cardinality = c;
    vb->container.runs.runs = r;
    vb->container.runs.numRuns = NR1;
    vb->container.runs.capacity = RCAP1;
#endif
    VP_ASSERT("P:harness.pre_wf", r_wf(vb) && r_member(vb, x) == d_in(&D, x) && vb->cardinality == d_card(&D));
    desc E = D;
#if OP == 0
    check_state(vb, &E, x);
#elif OP == 1
    bool ret = varintBitmapAdd(vb, a);
    VP_ASSERT("P:real.add.truthful", ret == !d_in(&D, a));
    d_add(&E, a);
    check_state(vb, &E, x);
#elif OP == 2
#if T1 == 1
    VP_ASSUME(!d_in(&D, a)); /* a hit converts the bitmap back to an array: 65536-step loop, covered scaled */
#endif
    bool ret = varintBitmapRemove(vb, a);
    VP_ASSERT("P:real.remove.truthful", ret == d_in(&D, a));
    d_remove(&E, a);
    check_state(vb, &E, x);
#elif OP == 3
    varintBitmapClear(vb);
    E.n = 0;
    check_state(vb, &E, x);
#elif OP == 4
    varintBitmap *cl = varintBitmapClone(vb);
    VP_ASSERT("P:real.clone.fresh", cl != NULL && cl != vb &&
                                        (void *)cl->container.array.values != (void *)vb->container.array.values);
    check_state(cl, &E, x);
    VP_ASSERT("P:real.clone.operand_unchanged",
              r_wf(vb) && r_member(vb, x) == d_in(&D, x) && vb->cardinality == d_card(&D));
#elif OP == 5
#if T1 == 0
#define ENCSZ (5 + 2 * CARD1)
#elif T1 == 1
#define ENCSZ (5 + VARINT_BITMAP_BITMAP_SIZE)
#else
#define ENCSZ (9 + 4 * NR1)
#endif
    uint8_t *buf = vp_exact(ENCSZ);
    size_t n = varintBitmapEncode(vb, buf);
    VP_ASSERT("P:real.encode.size", n == ENCSZ);
    VP_ASSERT("P:real.encode.operand_unchanged",
              r_wf(vb) && r_member(vb, x) == d_in(&D, x) && vb->cardinality == d_card(&D));
    varintBitmap *dec = varintBitmapDecode(buf, n);
    VP_ASSERT("P:real.encdec.fresh", dec != NULL && dec != vb);
    check_state(dec, &E, x);
#elif OP == 10
    VP_ASSUME(a >= b || b - a <= 2 || (b - a > VARINT_BITMAP_ARRAY_MAX && d_card(&D) == 0));
    varintBitmapAddRange(vb, a, b);
    if (a < b) {
        if (b - a <= 2) {
            d_add(&E, a);
            if (b - a == 2)
                d_add(&E, (uint32_t)a + 1);
        } else {
            E.n = 1;
            E.s[0] = a;
            E.l[0] = (uint32_t)b - a;
        }
    }
    check_state(vb, &E, x);
#elif OP == 11
    VP_ASSUME(a >= b || b - a <= 2);
#if T1 == 1
    VP_ASSUME(a >= b || (!d_in(&D, a) && (b - a < 2 || !d_in(&D, (uint32_t)a + 1))));
#endif
    varintBitmapRemoveRange(vb, a, b);
    if (a < b) {
        d_remove(&E, a);
        if (b - a == 2)
            d_remove(&E, (uint32_t)a + 1);
    }
    check_state(vb, &E, x);
#else
#error "OP"
#endif
    VP_REACH();
}
