/* C08 one-step checks at the REAL constants (universe 65536, ARRAY_MAX 4096, 8192-byte bitmap) on small shapes,
 * for the numeric effects scaling cannot show: values up to 65535, uint16_t wrap in start + j, the int
 * promotions in the run tests, the run iterator's position encoding, byte index 8191.
 *
 * The universe does not fit a machine word, so the abstract value is a short ascending list of disjoint
 * intervals (`desc`), membership in the result is compared for a SYMBOLIC probe x (i.e. for every x), cardinality
 * against the sum of the interval lengths, the iterator against the k-th member of the list.
 *
 *   pre-state  (contents from five 16-value windows at the numeric edges, see harness())
 *              T1=0 array  CARD1 (<= 4) symbolic ascending values, capacity CAP1
 *              T1=1 bitmap all zero except CARD1 (<= 2) symbolic members   (reachable: bitmap, Clear, Add)
 *              T1=2 runs   NR1 (<= 2) symbolic runs, capacity RCAP1; CCARD1 >= 0 fixes the total cardinality
 *   OP         0 observe  1 Add(a)  2 Remove(a)  3 Clear  4 Clone  5 Encode->Decode
 *              12 AddRange(a,b) and 13 RemoveRange(a,b): empty range, length <= 8, and for AddRange the single-run
 *                 shortcut (longer than ARRAY_MAX on an EMPTY set).  MODULAR: under CBMC the driver redirects
 *                 varintBitmapAdd / varintBitmapRemove to contract_*_real (Query(replace_calls=...)), which check that the
 *                 caller applies the callee to exactly a, a+1, ..., b-1, in order, on the same and otherwise untouched
 *                 object; natively (replay) the real callee runs and the real result is compared.
 *   not run on a bitmap-typed state (65536-step loops): iterator, ToArray, Remove of a member (bitmap -> array).
 */
#include "vp.h"
#include <stdbool.h>
#include <stdlib.h>
#include <string.h>
#include "varintBitmap.h"
#define VP_ALLOC_SIZES X(0) X(2) X(4) X(6) X(8) X(10) X(12) X(14) X(16) X(20) X(24) X(32) X(64) X(8192)
#include "vp_alloc.inc"

#if VARINT_BITMAP_MAX_VALUE != 65536 || VARINT_BITMAP_ARRAY_MAX != 4096
#error "real.c is for the unscaled constants"
#endif
#ifndef CARD1
#define CARD1 0
#endif
#ifndef CAP1
#define CAP1 CARD1
#endif
#ifndef NR1
#define NR1 0
#endif
#ifndef RCAP1
#define RCAP1 NR1
#endif
#ifndef CCARD1
#define CCARD1 (-1)
#endif
#define NIN 4
#define MAXIV 8 /* intervals in a description */
#define KMAX 6  /* members compared through the iterator / ToArray */
#define RANGEMAX 8 /* longest range driven through the loop of Add / Remove */

typedef struct desc {
    unsigned n;
    uint32_t s[MAXIV], e[MAXIV]; /* [s, e), pairwise disjoint, any order, possibly empty (e <= s) */
} desc;
static bool d_in(const desc *d, uint32_t x) {
    for (unsigned i = 0; i < MAXIV; i++)
        if (i < d->n && x >= d->s[i] && x < d->e[i])
            return true;
    return false;
}
static uint32_t d_card(const desc *d) {
    uint32_t c = 0;
    for (unsigned i = 0; i < MAXIV; i++)
        if (i < d->n && d->e[i] > d->s[i])
            c += d->e[i] - d->s[i];
    return c;
}
static void d_append(desc *d, uint32_t s, uint32_t e) {
    d->s[d->n] = s;
    d->e[d->n] = e;
    d->n++;
}
static void d_add(desc *d, uint32_t a) {
    if (!d_in(d, a))
        d_append(d, a, a + 1);
}
static void d_remove(desc *d, uint32_t a) {
    for (unsigned i = 0; i < MAXIV; i++)
        if (i < d->n && a >= d->s[i] && a < d->e[i]) {
            uint32_t e = d->e[i];
            d->e[i] = a;
            d_append(d, a + 1, e);
            return;
        }
}

/* abstraction: membership of x read from the representation as documented in varintBitmap.h */
static bool r_member(const varintBitmap *vb, uint32_t x) {
    if (vb->type == VARINT_BITMAP_ARRAY) {
        for (unsigned i = 0; i < MAXIV; i++)
            if (i < vb->cardinality && vb->container.array.values[i] == x)
                return true;
        return false;
    }
    if (vb->type == VARINT_BITMAP_BITMAP)
        return (vb->container.bitmap.bits[x >> 3] >> (x & 7)) & 1;
    for (unsigned i = 0; i < 2; i++)
        if (i < vb->container.runs.numRuns) {
            uint32_t s = vb->container.runs.runs[2 * i], l = vb->container.runs.runs[2 * i + 1];
            if (x >= s && x < s + l)
                return true;
        }
    return false;
}
/* representation invariant (bitmap: cardinality == popcount follows from r_member == description for every x
 * together with cardinality == size of the description, both asserted by check_state) */
static bool r_wf(const varintBitmap *vb) {
    if (!vb)
        return false;
    if (vb->type == VARINT_BITMAP_ARRAY) {
        const uint16_t *v = vb->container.array.values;
        if (!v || vb->cardinality > MAXIV || vb->cardinality > vb->container.array.capacity)
            return false;
#ifndef VP_NATIVE
        if (__CPROVER_OBJECT_SIZE(v) != vb->container.array.capacity * sizeof(uint16_t))
            return false;
#endif
        for (unsigned i = 1; i < MAXIV; i++)
            if (i < vb->cardinality && v[i] <= v[i - 1])
                return false;
        return true;
    }
    if (vb->type == VARINT_BITMAP_BITMAP) {
#ifndef VP_NATIVE
        if (__CPROVER_OBJECT_SIZE(vb->container.bitmap.bits) != VARINT_BITMAP_BITMAP_SIZE)
            return false;
#endif
        return vb->container.bitmap.bits != NULL;
    }
    if (vb->type == VARINT_BITMAP_RUNS) {
        const uint16_t *r = vb->container.runs.runs;
        unsigned n = vb->container.runs.numRuns;
        if (!r || n > vb->container.runs.capacity || n > 2)
            return false;
#ifndef VP_NATIVE
        if (__CPROVER_OBJECT_SIZE(r) != vb->container.runs.capacity * 2 * sizeof(uint16_t))
            return false;
#endif
        uint32_t end = 0, c = 0;
        for (unsigned i = 0; i < 2; i++)
            if (i < n) {
                uint32_t s = r[2 * i], l = r[2 * i + 1];
                if (l < 1 || s + l > 65536)
                    return false;
                if (i && s <= end)
                    return false;
                end = s + l;
                c += l;
            }
        return c == vb->cardinality;
    }
    return false;
}

#define OBS_ITER 2
#define OBS_ARRAY 4
#ifndef OBS
#define OBS 6
#endif
static void check_state(const varintBitmap *vb, const desc *E, uint16_t x, int what) {
    VP_ASSERT("P:real.wf", r_wf(vb));
    VP_ASSERT("P:real.value", r_member(vb, x) == d_in(E, x));
    VP_ASSERT("P:real.obs.contains", varintBitmapContains(vb, x) == d_in(E, x));
    VP_ASSERT("P:real.obs.cardinality", varintBitmapCardinality(vb) == d_card(E));
    VP_ASSERT("P:real.obs.is_empty", varintBitmapIsEmpty(vb) == (d_card(E) == 0));
    if (vb->type == VARINT_BITMAP_BITMAP)
        return;
    /* The iterator delivers exactly the members in ascending order: every delivered value is a member and larger
     * than the previous one, and no member (probe x = any value) lies before the first, between two consecutive
     * ones, or after the last.  Only the first KMAX deliveries of longer sets are followed. */
    bool inx = d_in(E, x);
    if (what & OBS_ITER) {
        varintBitmapIterator it = varintBitmapCreateIterator(vb);
        int32_t prev = -1;
        for (unsigned k = 0; k <= KMAX; k++) {
            if (!varintBitmapIteratorNext(&it)) {
                VP_ASSERT("P:real.obs.iter_complete", !(inx && (int32_t)x > prev) && k == d_card(E));
                VP_ASSERT("P:real.obs.iter_stays_ended", !varintBitmapIteratorNext(&it));
                break;
            }
            int32_t cur = it.currentValue;
            VP_ASSERT("P:real.obs.iter_member", d_in(E, (uint32_t)cur));
            VP_ASSERT("P:real.obs.iter_ascending", cur > prev);
            VP_ASSERT("P:real.obs.iter_skips_nothing", !(inx && (int32_t)x > prev && (int32_t)x < cur));
            prev = cur;
        }
    }
    if ((what & OBS_ARRAY) && d_card(E) <= KMAX) {
        uint16_t out[KMAX + 1];
        for (unsigned i = 0; i <= KMAX; i++)
            out[i] = 0xAAAA;
        uint16_t untouched = 0xAAAA;
        uint32_t n = varintBitmapToArray(vb, out);
        VP_ASSERT("P:real.obs.toarray_count", n == d_card(E));
        for (unsigned i = 0; i <= KMAX; i++) {
            if (i < n) {
                /* n distinct members of a set of n elements = the whole set */
                VP_ASSERT("P:real.obs.toarray_member", d_in(E, out[i]));
                if (i)
                    VP_ASSERT("P:real.obs.toarray_ascending", out[i] > out[i - 1]);
            } else
                VP_ASSERT("P:real.obs.toarray_tail_untouched", out[i] == untouched);
        }
    }
}

#if OP == 12 || OP == 13
/* ghost of the modular range queries */
static unsigned g_calls;
static const varintBitmap *g_obj;
static uint32_t g_first;
static const desc *g_pre;
static varintBitmapContainerType g_type;
static uint32_t g_card;
static const void *g_store;
static void contract_step(const varintBitmap *vb, uint16_t v) {
    if (g_calls == 0) {
        g_obj = vb;
        VP_ASSERT("P:mod.callee_pre_wf", r_wf(vb));
        g_type = vb->type;
        g_card = vb->cardinality;
        g_store = vb->container.array.values;
    } else {
        VP_ASSERT("P:mod.callee_same_object", vb == g_obj);
        VP_ASSERT("P:mod.object_only_changed_by_callee",
                  vb->type == g_type && vb->cardinality == g_card && (const void *)vb->container.array.values == g_store);
    }
    VP_ASSERT("P:real.range.each_value_once_in_order", v == (uint16_t)(g_first + g_calls));
    g_calls++;
}
bool contract_add_real(varintBitmap *vb, uint16_t v) {
    contract_step(vb, v);
    return !d_in(g_pre, v);
}
bool contract_remove_real(varintBitmap *vb, uint16_t v) {
    contract_step(vb, v);
    return d_in(g_pre, v);
}
/* members of d inside [a, b) */
static uint32_t d_overlap(const desc *d, uint32_t a, uint32_t b) {
    uint32_t c = 0;
    for (unsigned i = 0; i < MAXIV; i++)
        if (i < d->n) {
            uint32_t lo = d->s[i] > a ? d->s[i] : a, hi = d->e[i] < b ? d->e[i] : b;
            if (hi > lo)
                c += hi - lo;
        }
    return c;
}
#endif

void harness(void) {
    /* Contents of the pre-state are drawn from five 16-value windows placed at the numeric edges (0, the byte
     * boundary 256, ARRAY_MAX 4096, the sign boundary 32768, the top of uint16_t): value = base[sel] + low.
     * (Unconstrained 16-bit contents make the comparator chains of the sorted containers too hard for the SAT
     * solver: no verdict in 10 minutes for 4 members.)  The operands a, b and the probe x stay full 16-bit. */
    VP_IN_ARR(uint8_t, sel1, NIN);
    VP_IN_ARR(uint8_t, low1, NIN);
    static const uint32_t base[5] = {0, 248, 4088, 32760, 65520};
    uint32_t in1[NIN];
    for (unsigned i = 0; i < NIN; i++) {
        VP_ASSUME(sel1[i] < 5 && low1[i] < 16);
        in1[i] = base[sel1[i]] + low1[i];
    }
    VP_IN(uint16_t, a);
    VP_IN(uint16_t, b);
    VP_IN(uint16_t, x);
    (void)a;
    (void)b;
    desc D;
    D.n = 0;
    varintBitmap *vb = malloc(sizeof *vb);
#if T1 == 0 || T1 == 1
    for (unsigned i = 0; i < CARD1; i++) {
        if (i)
            VP_ASSUME(in1[i] > in1[i - 1]);
        D.s[i] = in1[i];
        D.e[i] = in1[i] + 1;
    }
    D.n = CARD1;
#if T1 == 0
    uint16_t *v = malloc(CAP1 * sizeof(uint16_t));
    for (unsigned i = 0; i < CARD1; i++)
        v[i] = (uint16_t)in1[i];
    vb->type = VARINT_BITMAP_ARRAY;
    vb->container.array.values = v;
    vb->container.array.capacity = CAP1;
#else
    uint8_t *bits = calloc(VARINT_BITMAP_BITMAP_SIZE, 1);
    for (unsigned i = 0; i < CARD1; i++)
        bits[in1[i] >> 3] |= (uint8_t)(1u << (in1[i] & 7));
    vb->type = VARINT_BITMAP_BITMAP;
    vb->container.bitmap.bits = bits;
#endif
    vb->cardinality = CARD1;
#else
    uint16_t *r = malloc(RCAP1 * 2 * sizeof(uint16_t));
    uint32_t end = 0, c = 0;
    for (unsigned i = 0; i < NR1; i++) {
        /* run [s, e): e is drawn from the windows shifted by one, so that e = 65536 is possible */
        uint32_t s = in1[2 * i], e = in1[2 * i + 1] + 1;
        VP_ASSUME(s < e && e - s <= 65535);
        uint32_t l = e - s;
        if (i)
            VP_ASSUME(s > end);
        r[2 * i] = (uint16_t)s;
        r[2 * i + 1] = (uint16_t)l;
        D.s[i] = s;
        D.e[i] = e;
        end = s + l;
        c += l;
    }
    D.n = NR1;
    if (CCARD1 >= 0)
        VP_ASSUME(c == (uint32_t)CCARD1);
    vb->type = VARINT_BITMAP_RUNS;
    vb->cardinality = c;
    vb->container.runs.runs = r;
    vb->container.runs.numRuns = NR1;
    vb->container.runs.capacity = RCAP1;
#endif
    VP_ASSERT("P:harness.pre_wf", r_wf(vb) && r_member(vb, x) == d_in(&D, x) && vb->cardinality == d_card(&D));
    desc E = D;
    (void)E;
#if OP == 0
    check_state(vb, &E, x, OBS);
#elif OP == 1
    bool ret = varintBitmapAdd(vb, a);
    VP_ASSERT("P:real.add.truthful", ret == !d_in(&D, a));
    d_add(&E, a);
    check_state(vb, &E, x, OBS);
#elif OP == 2
#if T1 == 1
    VP_ASSUME(!d_in(&D, a)); /* a hit converts the bitmap back to an array: 65536-step loop, covered scaled */
#endif
    bool ret = varintBitmapRemove(vb, a);
    VP_ASSERT("P:real.remove.truthful", ret == d_in(&D, a));
    d_remove(&E, a);
    check_state(vb, &E, x, OBS);
#elif OP == 3
    varintBitmapClear(vb);
    E.n = 0;
    check_state(vb, &E, x, OBS);
#elif OP == 4
    varintBitmap *cl = varintBitmapClone(vb);
    VP_ASSERT("P:real.clone.fresh", cl != NULL && cl != vb &&
                                        (void *)cl->container.array.values != (void *)vb->container.array.values);
    check_state(cl, &E, x, OBS);
    VP_ASSERT("P:real.clone.operand_unchanged",
              r_wf(vb) && r_member(vb, x) == d_in(&D, x) && vb->cardinality == d_card(&D));
#elif OP == 5
#if T1 == 0
#define ENCSZ (5 + 2 * CARD1)
#elif T1 == 1
#define ENCSZ (5 + VARINT_BITMAP_BITMAP_SIZE)
#else
#define ENCSZ (9 + 4 * NR1)
#endif
    uint8_t *buf = vp_exact(ENCSZ);
    size_t n = varintBitmapEncode(vb, buf);
    VP_ASSERT("P:real.encode.size", n == ENCSZ);
    VP_ASSERT("P:real.encode.operand_unchanged",
              r_wf(vb) && r_member(vb, x) == d_in(&D, x) && vb->cardinality == d_card(&D));
    varintBitmap *dec = varintBitmapDecode(buf, n);
    VP_ASSERT("P:real.encdec.fresh", dec != NULL && dec != vb);
    check_state(dec, &E, x, OBS);
#elif OP == 12 || OP == 13
#if OP == 12
    /* short ranges (the loop of Add), or the single-run shortcut: a range longer than ARRAY_MAX on an empty set.
     * (A range longer than ARRAY_MAX on a non-empty set needs > 4096 loop iterations: covered at the scaled constants.) */
    VP_ASSUME(b <= a || b - a <= RANGEMAX || (b - a > VARINT_BITMAP_ARRAY_MAX && d_card(&D) == 0));
#else
    VP_ASSUME(b <= a || b - a <= RANGEMAX);
#endif
    g_pre = &D;
    g_first = a;
#if OP == 12
    varintBitmapAddRange(vb, a, b);
    bool want = d_in(&D, x) || (x >= a && x < b);
    uint32_t wantcard = d_card(&D) + ((uint32_t)b - a) - d_overlap(&D, a, b);
#else
    varintBitmapRemoveRange(vb, a, b);
    bool want = d_in(&D, x) && !(x >= a && x < b);
    uint32_t wantcard = d_card(&D) - d_overlap(&D, a, b);
#endif
    if (a >= b) {
        want = d_in(&D, x);
        wantcard = d_card(&D);
    }
    if (g_calls) {
        /* by the callee's contract the object now holds the wanted set provided the callee was applied to every value */
        VP_ASSERT("P:real.range.whole_range", g_obj == vb && g_first + g_calls == b);
        VP_ASSERT("P:mod.object_only_changed_by_callee",
                  r_wf(vb) && r_member(vb, x) == d_in(&D, x) && vb->cardinality == d_card(&D));
    } else {
        /* native replay, an empty range, or a caller that did the work itself (the single-run shortcut): compare
         * the real result */
        VP_ASSERT("P:real.range.wf", r_wf(vb));
        VP_ASSERT("P:real.range.value", r_member(vb, x) == want);
        VP_ASSERT("P:real.range.contains", varintBitmapContains(vb, x) == want);
        VP_ASSERT("P:real.range.cardinality", varintBitmapCardinality(vb) == wantcard);
        VP_ASSERT("P:real.range.is_empty", varintBitmapIsEmpty(vb) == (wantcard == 0));
        if (OP == 12 && a < b && d_card(&D) == 0 && vb->type == VARINT_BITMAP_RUNS) {
            /* the run produced by the shortcut: first members through the iterator */
            varintBitmapIterator it = varintBitmapCreateIterator(vb);
            for (unsigned k = 0; k < KMAX; k++)
                if (k < wantcard)
                    VP_ASSERT("P:real.range.iter_first_members",
                              varintBitmapIteratorNext(&it) && it.currentValue == (uint32_t)a + k);
        }
    }
#else
#error "OP"
#endif
    VP_REACH();
}
