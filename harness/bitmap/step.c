/* C08 inductive step, library code fully inlined, scaled universe (see bm.h).
 *
 *   pre-state : well-formed container of the concrete shape T1/CARD1/CAP1/NR1/RCAP1/CCARD1, contents symbolic
 *   OP        : 0 none (observers only)   1 Add(a)      2 Remove(a)    3 Clear      4 Clone
 *               5 Encode -> Decode        6 Decode of a consistent serialisation written by the harness
 *               7 Create
 *   post      : abstract value == set operation, return value truthful, result well-formed (closes the
 *               induction), all observers (Contains, Cardinality, IsEmpty, iterator, ToArray) agree with the
 *               abstract value, read-only operands unchanged.
 *
 * Scaling note: operands are assumed < U because the scaled universe stands for all of uint16_t.
 */
#include "bm.h"
#include <string.h>
#define VP_ALLOC_SIZES X(0) X(1) X(2) X(3) X(4) X(6) X(8) X(10) X(12) X(14) X(16) X(18) X(20) X(22) X(24) X(26) X(28) X(30) X(32)
#include "vp_alloc.inc"

#ifndef OBS
#define OBS OBS_ALL /* which observers run on the resulting state (bm.h) */
#endif
#if T1 == 0
#define ENCSZ (5 + 2 * CARD1)
#elif T1 == 1
#define ENCSZ (5 + BSZ)
#else
#define ENCSZ (9 + 4 * NR1)
#endif

void harness(void) {
    VP_IN_ARR(uint16_t, in1, NIN);
    VP_IN(uint16_t, a);
    VP_IN(uint16_t, x);
    VP_ASSUME(a < U && x < U);
    set_t S;
    (void)a;
#if OP == 7
    (void)in1;
    varintBitmap *vb = varintBitmapCreate();
    VP_ASSERT("P:create.nonnull", vb != NULL);
    VP_ASSERT("P:create.wf", bm_wf(vb));
    VP_ASSERT("P:create.empty", bm_abs(vb) == 0);
    S = 0;
    bm_observe(vb, S, x, OBS);
#elif OP == 6
    /* the serialisation the format comment describes: type byte, 32-bit cardinality, then the payload */
    set_t S0;
    varintBitmap *model = BM_MK1(in1, &S0); /* only used as the description of the shape */
    uint8_t *buf = vp_exact(ENCSZ);
    uint32_t c32 = model->cardinality;
    buf[0] = (uint8_t)T1;
    memcpy(buf + 1, &c32, 4);
#if T1 == 0
    for (unsigned i = 0; i < CARD1; i++)
        memcpy(buf + 5 + 2 * i, &in1[i], 2);
#elif T1 == 1
    for (unsigned i = 0; i < BSZ; i++)
        buf[5 + i] = (uint8_t)in1[i];
#else
    uint32_t n32 = NR1;
    memcpy(buf + 5, &n32, 4);
    for (unsigned i = 0; i < 2 * NR1; i++)
        memcpy(buf + 9 + 2 * i, &in1[i], 2);
#endif
    varintBitmap *vb = varintBitmapDecode(buf, ENCSZ);
    VP_ASSERT("P:decode.nonnull", vb != NULL);
    VP_ASSERT("P:decode.wf", bm_wf(vb));
    VP_ASSERT("P:decode.value", bm_abs(vb) == S0);
    VP_ASSERT("P:decode.type", (int)vb->type == T1 && vb->cardinality == model->cardinality);
    S = S0;
    bm_observe(vb, S, x, OBS);
#else
    varintBitmap *vb = BM_MK1(in1, &S);
    VP_ASSERT("P:harness.pre_wf", bm_wf(vb) && bm_abs(vb) == S);
#if OP == 0
    bm_observe(vb, S, x, OBS);
#elif OP == 1
    bool r = varintBitmapAdd(vb, a);
    VP_ASSERT("P:add.truthful", r == !((S >> a) & 1));
    S |= BIT(a);
    VP_ASSERT("P:add.wf", bm_wf(vb));
    VP_ASSERT("P:add.value", bm_abs(vb) == S);
    bm_observe(vb, S, x, OBS);
#elif OP == 20 || OP == 21 || OP == 22
    /* C18: the k-th allocation of ONE operation fails (k symbolic, 0 = none); afterwards - failures off - the object must be
     * well-formed, hold the right set, and be usable: one more Add and Remove behave as on a set, and any write through a stale
     * capacity or pointer is a memory error under the exact-size allocator */
    VP_IN(uint32_t, failat);
    VP_ASSUME(failat <= 3);
    const unsigned live1 = vp_live;
    vp_alloc_calls = 0;
    vp_alloc_failed = 0;
    vp_fail_at = failat;
#if OP == 20
    bool r = varintBitmapAdd(vb, a);
    vp_fail_at = 0;
    if (r) {
        VP_ASSERT("P:oomb.add_true_means_added", !((S >> a) & 1));
        S |= BIT(a);
    } else if (!((S >> a) & 1)) {
        VP_ASSERT("P:oomb.failure_only_if_alloc_failed", vp_alloc_failed);
    }
#elif OP == 21
    bool r = varintBitmapRemove(vb, a);
    vp_fail_at = 0;
    if (r) {
        VP_ASSERT("P:oomb.remove_true_means_removed", (S >> a) & 1);
        S &= ~BIT(a);
    } else if ((S >> a) & 1) {
        VP_ASSERT("P:oomb.failure_only_if_alloc_failed", vp_alloc_failed);
    }
#else
    varintBitmap *c = varintBitmapClone(vb);
    vp_fail_at = 0;
    if (!c) {
        VP_ASSERT("P:oomb.failure_only_if_alloc_failed", vp_alloc_failed);
        VP_ASSERT("P:oomb.failed_clone_no_leak", vp_live == live1);
    } else {
        VP_ASSERT("P:oomb.clone_value", bm_wf(c) && bm_abs(c) == S);
        varintBitmapFree(c);
        VP_ASSERT("P:oomb.clone_freed", vp_live == live1);
    }
#endif
    VP_ASSERT("P:oomb.calls_bounded", vp_alloc_calls <= 3);
    VP_ASSERT("P:oomb.consistent_after_failure", bm_wf(vb) && bm_abs(vb) == S);
    /* usable afterwards: the object is again one of the well-formed pre-states from which C08's one-step queries prove
     * every operation correct - provided the recorded capacities are backed by memory, which bm_wf cannot see.  Under CBMC
     * the size of the heap object is available; natively (replay) ASan's redzones play that role. */
#ifndef VP_NATIVE
    if (vb->type == VARINT_BITMAP_ARRAY)
        VP_ASSERT("P:oomb.capacity_backed_by_memory",
                  __CPROVER_OBJECT_SIZE(vb->container.array.values) >= vb->container.array.capacity * sizeof(uint16_t));
    else if (vb->type == VARINT_BITMAP_BITMAP)
        VP_ASSERT("P:oomb.capacity_backed_by_memory", __CPROVER_OBJECT_SIZE(vb->container.bitmap.bits) >= BSZ);
    else
        VP_ASSERT("P:oomb.capacity_backed_by_memory",
                  __CPROVER_OBJECT_SIZE(vb->container.runs.runs) >= vb->container.runs.capacity * 2 * sizeof(uint16_t));
#else
    /* native replay: touch the last slot the recorded capacity promises (ASan traps if it is not there) */
    if (vb->type == VARINT_BITMAP_ARRAY && vb->container.array.capacity) {
        volatile uint16_t *pp = &vb->container.array.values[vb->container.array.capacity - 1];
        *pp = *pp;
    }
#endif
#elif OP == 2
    bool r = varintBitmapRemove(vb, a);
    VP_ASSERT("P:remove.truthful", r == (bool)((S >> a) & 1));
    S &= ~BIT(a);
    VP_ASSERT("P:remove.wf", bm_wf(vb));
    VP_ASSERT("P:remove.value", bm_abs(vb) == S);
    bm_observe(vb, S, x, OBS);
#elif OP == 3
    varintBitmapClear(vb);
    S = 0;
    VP_ASSERT("P:clear.wf", bm_wf(vb));
    VP_ASSERT("P:clear.value", bm_abs(vb) == S);
    bm_observe(vb, S, x, OBS);
#elif OP == 4
    bm_snap s0 = bm_snapshot(vb);
    varintBitmap *c = varintBitmapClone(vb);
    VP_ASSERT("P:clone.nonnull", c != NULL && c != vb);
    VP_ASSERT("P:clone.wf", bm_wf(c));
    VP_ASSERT("P:clone.value", bm_abs(c) == S);
    VP_ASSERT("P:clone.operand_unchanged", bm_same(vb, s0));
    /* independent storage (all three container pointers share offset 0 of the union) */
    VP_ASSERT("P:clone.own_storage", (void *)c->container.array.values != (void *)vb->container.array.values);
    bm_observe(c, S, x, OBS);
#elif OP == 5
    bm_snap s0 = bm_snapshot(vb);
    uint8_t *buf = vp_exact(ENCSZ);
    size_t n = varintBitmapEncode(vb, buf);
    VP_ASSERT("P:encode.size", n == ENCSZ);
    VP_ASSERT("P:encode.operand_unchanged", bm_same(vb, s0));
    varintBitmap *d = varintBitmapDecode(buf, n);
    VP_ASSERT("P:encdec.nonnull", d != NULL && d != vb);
    VP_ASSERT("P:encdec.wf", bm_wf(d));
    VP_ASSERT("P:encdec.value", bm_abs(d) == S);
    bm_observe(d, S, x, OBS);
#else
#error "OP"
#endif
#endif
    VP_REACH();
}
