/* C11: bitstream Set/Get exactness, isolation and access footprint.
 * Word type chosen with -DVBITS=... -DVBITSVAL=... (default uint64_t).
 * The stream is an object of exactly 3 words; ranges may end exactly at the
 * end of the object, so touching the word after the range is a bounds error. */
#include "vp.h"
#include "varintBitstream.h"
#define W ((unsigned)BITS_PER_SLOT)

void harness(void) {
    VP_IN_ARR(vbits, init, 3);
    VP_IN(uint32_t, off);
    VP_IN(uint32_t, width);
    VP_IN(vbitsVal, val);
    VP_ASSUME(width >= 1 && width <= W);
    VP_ASSUME(off < 3 * W && off + width <= 3 * W);
#ifdef WORD
    /* case split (exhaustive over WORD in 0..2 x CROSS in 0..1; WORD=2,CROSS=1 is empty) */
    VP_ASSUME(off / W == WORD);
    VP_ASSUME((((off % W) + width > W) ? 1 : 0) == CROSS);
#endif
    VP_ASSUME(width == sizeof(vbitsVal) * 8 || (val >> (width % (sizeof(vbitsVal) * 8))) == 0);
    vbits *s = vp_exact(3 * sizeof(vbits));
    for (int i = 0; i < 3; i++)
        s[i] = init[i];
    varintBitstreamSet(s, off, width, val);
    vbitsVal got = varintBitstreamGet(s, off, width);
    VP_ASSERT("P:bitstream.get_after_set", got == val);
    /* every bit outside [off, off+width) unchanged; bit k of the stream is bit
     * (W-1 - k%W) of word k/W (MSB-first, per the module's layout notes) */
    for (unsigned wi = 0; wi < 3; wi++) {
        vbits keep = 0;
        for (unsigned bi = 0; bi < W; bi++) {
            unsigned k = wi * W + bi;
            if (k < off || k >= off + width)
                keep |= (vbits)((vbits)1 << (W - 1 - bi));
        }
        VP_ASSERT("P:bitstream.isolation", (s[wi] & keep) == (init[wi] & keep));
    }
    /* the value's bits are laid out MSB first starting at off */
    for (unsigned i = 0; i < W; i++) {
        if (i < width) {
            unsigned k = off + i;
            unsigned bit = (unsigned)((s[k / W] >> (W - 1 - k % W)) & 1);
            VP_ASSERT("P:bitstream.layout_msb_first", bit == (unsigned)((val >> (width - 1 - i)) & 1));
        }
    }
    VP_REACH();
}
