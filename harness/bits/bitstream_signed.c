/* C11: signed helpers restore every signed value representable in the chosen
 * width (sign + magnitude: |x| < 2^(width-1)); negative values go through
 * _varintBitstreamPrepareSigned, as the macro's comment requires. */
#include "vp.h"
#include "varintBitstream.h"
#define W ((unsigned)BITS_PER_SLOT)
#if defined(WORD32)
typedef int32_t sval;
#else
typedef int64_t sval;
#endif

void harness(void) {
    VP_IN(sval, x);
    VP_IN(uint32_t, width);
    VP_IN(uint32_t, off);
    VP_IN_ARR(vbits, init, 3);
    VP_ASSUME(width >= 2 && width <= W);
    VP_ASSUME(off < 3 * W && off + width <= 3 * W);
    if (width < W) {
        VP_ASSUME(x > -((sval)1 << (width - 1)) && x < ((sval)1 << (width - 1)));
    } else {
        VP_ASSUME(x != (sval)((vbitsVal)1 << (W - 1))); /* -2^(W-1) has no sign+magnitude form */
    }
    sval v = x;
    if (v < 0) {
        _varintBitstreamPrepareSigned(v, width);
    }
    vbits s[3];
    for (int i = 0; i < 3; i++)
        s[i] = init[i];
    vbitsVal stored = (vbitsVal)v;
    if (width < W)
        VP_ASSERT("P:bitstream.signed.prepared_fits", (stored >> width) == 0);
    varintBitstreamSet(s, off, width, stored);
    sval y = (sval)varintBitstreamGet(s, off, width);
    _varintBitstreamRestoreSigned(y, width);
    VP_ASSERT("P:bitstream.signed.restore", y == x);
    VP_REACH();
}
