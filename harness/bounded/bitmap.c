/* C14: bitmap deserialiser varintBitmapDecode(buffer, len).
 *
 * default : buffer = object of exactly L bytes, every content, split by the
 *           container type announced in byte 0 (-DTYPE=0 ARRAY, 1 BITMAP,
 *           2 RUNS, 3 = every other value; exhaustive).  Oracles: CBMC bounds
 *           checks (no read at/after L; the payload copy stays inside the
 *           object the decoder allocated, which is exact-size from the
 *           dispatch allocator), unwinding assertions (copy loops bounded by
 *           L), allocator stub (every request <= the largest container the
 *           format can describe, 65536 values * 2 bytes), no leak, and when a
 *           bitmap is returned: its payload was really present in the input
 *           (ARRAY: 5 + 2*cardinality <= L, RUNS: 9 + 4*numRuns <= L, BITMAP:
 *           5 + VARINT_BITMAP_BITMAP_SIZE <= L) and every announced element
 *           exists in the container (read through the public accessors and
 *           directly).
 *           BITMAP at the real constants: the 8 KiB request is served by the
 *           128-byte surrogate (a correct decoder rejects L <= 17 before
 *           touching it); with the scaled hook constants (VARINT_VERIF_BITMAP_*,
 *           only if the tree has the hook) the accept path is exact.
 * -DVALID : a bitmap built through the public API from NV symbolic values is
 *           serialised by the REAL encoder; decoding exactly the encoded bytes
 *           (object of exactly that size) gives a bitmap with the same
 *           members; decoding any strict prefix is rejected (NULL). */
#include "vp.h"
#include "varintBitmap.h"

#define VP_ALLOC_SIZES X(0) X(2) X(4) X(6) X(8) X(10) X(12) X(24) X(32)
#define VP_ALLOC_SURROGATE 128
#define VP_ALLOC_CAP (65536u * 2u)
#include "vp_alloc.inc"

#ifndef L
#define L 7
#endif
#ifndef TYPE
#define TYPE 0
#endif
#ifndef NV
#define NV 2
#endif

void harness(void) {
#ifdef VALID
    VP_IN_ARR(uint16_t, vals, NV);
    VP_IN(uint8_t, cut);
    VP_IN(uint16_t, probe);
    VP_ASSUME(vals[0] < vals[1]); /* two distinct members: encoded size is 5 + 2*2 */
    varintBitmap *vb = varintBitmapCreate();
    VP_ASSUME(vb != 0);
    for (int i = 0; i < NV; i++)
        varintBitmapAdd(vb, vals[i]);
    uint8_t enc[16];
    size_t written = varintBitmapEncode(vb, enc);
    VP_ASSERT("P:bitmap.valid_encoder_size", written == 5 + 2 * NV);
    uint8_t *ex = vp_exact(5 + 2 * NV);
    for (int i = 0; i < 5 + 2 * NV; i++)
        ex[i] = enc[i];
    varintBitmap *d = varintBitmapDecode(ex, written);
    VP_ASSERT("P:bitmap.valid_decodes", d != 0);
    if (d) {
        VP_ASSERT("P:bitmap.valid_cardinality", varintBitmapCardinality(d) == NV);
        VP_ASSERT("P:bitmap.valid_members",
                  varintBitmapContains(d, probe) == (probe == vals[0] || probe == vals[1]));
        varintBitmapFree(d);
    }
    VP_ASSUME(cut >= 1 && cut <= written);
#ifndef VP_KF_EXCLUDE_C14_BITMAP_DECODE_TRUSTS_INPUT /* every strict prefix lies in the finding's region */
    varintBitmap *t = varintBitmapDecode(enc, written - cut);
    VP_ASSERT("P:bitmap.valid_truncated_rejected", t == 0);
    if (t)
        varintBitmapFree(t);
#endif
    varintBitmapFree(vb);
    VP_ASSERT("P:bitmap.valid_no_leak", vp_live == 0);
#else
    VP_IN_ARR(uint8_t, in, L);
    VP_IN(uint16_t, probe);
#if L > 0
#if TYPE < 3
    VP_ASSUME(in[0] == TYPE);
#else
    VP_ASSUME(in[0] >= 3);
#endif
#endif
#ifdef CLAIM_MAX
    /* sub-region: the element / run count the input declares is small, so the
     * payload copy is bounded whatever the decoder does with len (gives a
     * memory verdict instead of an exceeded loop bound on a tree that trusts
     * the declared count) */
#if TYPE == 0 && L >= 5
    VP_ASSUME(in[1] <= CLAIM_MAX && in[2] == 0 && in[3] == 0 && in[4] == 0);
#elif TYPE == 2 && L >= 9
    VP_ASSUME(in[5] <= CLAIM_MAX && in[6] == 0 && in[7] == 0 && in[8] == 0);
#endif
#endif
    /* Region predicate of the (optional) known finding
     * C14_BITMAP_DECODE_TRUSTS_INPUT: "the input is shorter than the
     * serialisation it announces" (header 5 bytes; ARRAY 5 + 2*cardinality;
     * BITMAP 5 + VARINT_BITMAP_BITMAP_SIZE; RUNS 9 + 4*numRuns; an unknown
     * type announces only the header). */
    int kf_short = 1;
#if L >= 5
    {
        uint64_t c = (uint64_t)in[1] | ((uint64_t)in[2] << 8) | ((uint64_t)in[3] << 16) | ((uint64_t)in[4] << 24);
#if TYPE == 0
        kf_short = 5 + 2 * c > L;
#elif TYPE == 1
        (void)c;
        kf_short = 5 + (uint64_t)VARINT_BITMAP_BITMAP_SIZE > L;
#elif TYPE == 2 && L >= 9
        uint64_t r = (uint64_t)in[5] | ((uint64_t)in[6] << 8) | ((uint64_t)in[7] << 16) | ((uint64_t)in[8] << 24);
        (void)c;
        kf_short = 9 + 4 * r > L;
#elif TYPE == 2
        (void)c;
#else
        (void)c;
        kf_short = 0;
#endif
    }
#endif
#if defined(VP_KF_ONLY_C14_BITMAP_DECODE_TRUSTS_INPUT)
    VP_ASSUME(kf_short);
#endif
    uint8_t *buf = vp_exact(L);
    for (int i = 0; i < L; i++)
        buf[i] = in[i];
#if L > 0 && TYPE < 3
    buf[0] = TYPE; /* same value as in[0]; a literal lets symex fold the switch */
#endif
    varintBitmap *vb = 0;
#if defined(VP_KF_EXCLUDE_C14_BITMAP_DECODE_TRUSTS_INPUT)
    /* = VP_ASSUME(!kf_short), written as a guard so that queries lying wholly
     * inside the region still reach VP_REACH instead of becoming vacuous */
    if (!kf_short)
#endif
        vb = varintBitmapDecode(buf, L);
    (void)kf_short;
    if (vb) {
        uint32_t sink = 0;
        if (vb->type == VARINT_BITMAP_ARRAY) {
            VP_ASSERT("P:bitmap.array_payload_was_in_input", 5 + 2 * (size_t)vb->cardinality <= L);
            if (vb->cardinality > 0)
                sink = vb->container.array.values[0] ^ vb->container.array.values[vb->cardinality - 1];
        } else if (vb->type == VARINT_BITMAP_RUNS) {
            VP_ASSERT("P:bitmap.runs_payload_was_in_input", 9 + 4 * (size_t)vb->container.runs.numRuns <= L);
            if (vb->container.runs.numRuns > 0)
                sink = vb->container.runs.runs[0] ^ vb->container.runs.runs[2 * vb->container.runs.numRuns - 1];
        } else if (vb->type == VARINT_BITMAP_BITMAP) {
            VP_ASSERT("P:bitmap.bitmap_payload_was_in_input", 5 + (size_t)VARINT_BITMAP_BITMAP_SIZE <= L);
            sink = vb->container.bitmap.bits[0];
            if (VARINT_BITMAP_BITMAP_SIZE <= VP_ALLOC_SURROGATE) /* not through the surrogate */
                sink ^= vb->container.bitmap.bits[VARINT_BITMAP_BITMAP_SIZE - 1];
        }
        (void)sink;
        if (TYPE != 1 || VARINT_BITMAP_BITMAP_SIZE <= VP_ALLOC_SURROGATE) /* not through the surrogate */
            (void)varintBitmapContains(vb, probe % VARINT_BITMAP_MAX_VALUE);
        varintBitmapFree(vb);
    }
    VP_ASSERT("P:bitmap.no_leak", vp_live == 0);
#endif
    VP_REACH();
}
