/* C14: dictionary decoders on arbitrary / truncated input.
 *
 * default (arbitrary contents): buffer = object of exactly L bytes, every
 *   content; -DINTO=1 varintDictDecodeInto(buf, L, out, CAP) with out an object
 *   of exactly CAP values, -DINTO=0 varintDictDecode(buf, L, &cnt).
 *   Oracles: CBMC bounds checks (no read at/after L, no write past out, reads
 *   of the returned array stay inside the object the decoder allocated),
 *   unwinding assertions (termination), the allocator stub (every request <=
 *   the documented 8 MiB dictionary cap), no leak, and from the format text
 *   [dict_size][entries][count][indices] (every field >= 1 byte, an index must
 *   name an existing entry): a non-empty result of d values needs d + 3 bytes.
 * -DVALID=1|2 (sanity / every truncation of a valid encoding): NV symbolic
 *   values are encoded by the REAL encoder; decoding with the exact encoded
 *   length returns the input; decoding any strict prefix reports the
 *   documented error (0 / NULL). 1 = DecodeInto, 2 = Decode; -DPART=0 the
 *   exact length, -DPART=1 the strict prefixes. */
#include "vp.h"
#include "varintDict.h"

#ifndef L
#define L 6
#endif
/* exact objects for every size a correct decoder can request within the bound
 * (8 * k for k <= L - 2 table entries / output values); anything else must be
 * <= the cap and is served by the surrogate */
#ifdef VALID
#define VP_ALLOC_SIZES X(0) X(8) X(16) X(24) X(32) X(128)
#else
#if L >= 3
#define S1 X(8)
#else
#define S1
#endif
#if L >= 4
#define S2 X(16)
#else
#define S2
#endif
#if L >= 5
#define S3 X(24)
#else
#define S3
#endif
#if L >= 6
#define S4 X(32)
#else
#define S4
#endif
#if L >= 7
#define S5 X(40)
#else
#define S5
#endif
#if L >= 8
#define S6 X(48)
#else
#define S6
#endif
#if L >= 9
#define S7 X(56)
#else
#define S7
#endif
#if L >= 10
#define S8 X(64)
#else
#define S8
#endif
#if L >= 11
#define S9 X(72)
#else
#define S9
#endif
#if L >= 12
#define S10 X(80)
#else
#define S10
#endif
#define VP_ALLOC_SIZES X(0) S1 S2 S3 S4 S5 S6 S7 S8 S9 S10
#endif
#define VP_ALLOC_SURROGATE 128
#define VP_ALLOC_CAP (8u * 1048576u) /* VARINT_DICT_MAX_SIZE entries * 8 bytes */
#include "vp_alloc.inc"

#ifndef CAP
#define CAP 4
#endif
#ifndef INTO
#define INTO 1
#endif
#ifndef NV
#define NV 2
#endif

void harness(void) {
#ifdef VALID
    VP_IN_ARR(uint64_t, vals, NV);
    VP_IN(uint8_t, cut);
#ifdef VMAX
    for (int i = 0; i < NV; i++)
        VP_ASSUME(vals[i] <= (uint64_t)(VMAX));
#endif
    uint8_t enc[2 + 10 * NV];
    for (unsigned i = 0; i < sizeof(enc); i++)
        enc[i] = 0xA5;
    size_t written = varintDictEncode(enc, vals, NV);
    VP_ASSERT("P:dict.valid_encoder_size", written >= 3 + NV && written <= sizeof(enc));
    VP_ASSUME(cut >= 1 && cut <= written);
#ifndef PART
#define PART 0
#endif
#if VALID == 1
    uint64_t *out = vp_exact(NV * sizeof(uint64_t));
#if PART == 0
    size_t d = varintDictDecodeInto(enc, written, out, NV);
    VP_ASSERT("P:dict.valid_into_count", d == NV);
    for (int i = 0; i < NV; i++)
        VP_ASSERT("P:dict.valid_into_values", out[i] == vals[i]);
#else
    size_t t = varintDictDecodeInto(enc, written - cut, out, NV);
    VP_ASSERT("P:dict.valid_truncated_into_reports_0", t == 0);
#endif
#else
#if PART == 0
    size_t cnt = 77;
    uint64_t *o = varintDictDecode(enc, written, &cnt);
    VP_ASSERT("P:dict.valid_decode_nonnull", o != 0);
    if (o) {
        VP_ASSERT("P:dict.valid_decode_count", cnt == NV);
        for (int i = 0; i < NV; i++)
            if ((size_t)i < cnt)
                VP_ASSERT("P:dict.valid_decode_values", o[i] == vals[i]);
        free(o);
    }
#else
    size_t c2 = 77;
    uint64_t *o2 = varintDictDecode(enc, written - cut, &c2);
    VP_ASSERT("P:dict.valid_truncated_decode_reports_null", o2 == 0);
    if (o2)
        free(o2);
#endif
#endif
    VP_ASSERT("P:dict.valid_no_leak", vp_live == 0);
#else
    VP_IN_ARR(uint8_t, in, L);
#if defined(DS) && L > 0
    /* case split on the first byte of the dictionary-size field. Exhaustive:
     * DS = 0 .. DSREST-1 : that single-byte size (DSREST = L-1 is the first
     *                      size that cannot be followed by a count and an index);
     * DS = DSREST        : every larger single-byte size (first byte DSREST..240);
     * DS = 241 / 249 / 250 : multi-byte size field of 2 bytes (first byte
     *                      241..248), 3 bytes (249), 4..9 bytes (250..255): any
     *                      announced size, incl. non-minimal encodings of small ones. */
#if DS < DSREST || DS == 249
    VP_ASSUME(in[0] == DS);
#elif DS == DSREST
    VP_ASSUME(in[0] >= DSREST && in[0] <= 240);
#elif DS == 241
    VP_ASSUME(in[0] >= 241 && in[0] <= 248);
#else
    VP_ASSUME(in[0] >= 250);
#endif
#endif
    uint8_t *buf = vp_exact(L);
    for (int i = 0; i < L; i++)
        buf[i] = in[i];
#if defined(DS) && L > 0 && (DS < DSREST || DS == 249)
    buf[0] = DS; /* same value as in[0]; a literal lets symex fold the dictionary size */
#endif
#if INTO
    uint64_t *out = vp_exact(CAP * sizeof(uint64_t));
    size_t d = varintDictDecodeInto(buf, L, out, CAP);
    VP_ASSERT("P:dict.into_count_le_capacity", d <= CAP);
    VP_ASSERT("P:dict.into_count_fits_input", d == 0 || d + 3 <= L);
#else
    const size_t SENT = 0x7E57;
    size_t cnt = SENT;
    uint64_t *o = varintDictDecode(buf, L, &cnt);
    if (o) {
        VP_ASSERT("P:dict.decode_count_fits_input", cnt == 0 || cnt + 3 <= L);
        /* the announced elements must exist in the object the decoder allocated */
        uint64_t sink = 0;
        if (cnt > 0)
            sink = o[0] ^ o[cnt - 1];
        (void)sink;
        free(o);
    }
#endif
    VP_ASSERT("P:dict.no_leak", vp_live == 0);
#endif
    VP_REACH();
}
