/* C14, semi-concrete input: a dictionary of DN literal one-byte entries (so the
 * index width is 2 bytes for DN = 257, 3 for 65537 is out of reach) followed by
 * a fully SYMBOLIC 9-byte count varint and TAIL symbolic index bytes.  The input
 * object has exactly L = 2 + DN + 9 + TAIL bytes.  This reaches the
 * index-area arithmetic (count * indexWidth, count * 8) with index widths > 1,
 * which arbitrary inputs of <= 12 bytes cannot (an index width of 2 needs 257
 * entries).  Oracles as in dict.c. */
#include "vp.h"
#include "varintDict.h"
#ifndef DN
#define DN 257
#endif
#ifndef TAIL
#define TAIL 4
#endif
#define L (2 + DN + 9 + TAIL)
#define VP_ALLOC_SIZES X(0) X(8) X(16) X(DN * 8)
#define VP_ALLOC_SURROGATE 128
#define VP_ALLOC_CAP (8u * 1048576u)
#include "vp_alloc.inc"
#ifndef INTO
#define INTO 0
#endif
#ifndef CAP
#define CAP 2
#endif

void harness(void) {
    VP_IN_ARR(uint8_t, cnt, 9);
    VP_IN_ARR(uint8_t, tail, TAIL);
    uint8_t *in = vp_exact(L);
    /* dictionary size DN as a 2-byte tagged varint: 241 + (DN-240)/256, (DN-240)%256 */
    in[0] = (uint8_t)(241 + (DN - 240) / 256);
    in[1] = (uint8_t)((DN - 240) % 256);
    for (unsigned i = 0; i < DN; i++)
        in[2 + i] = (uint8_t)(i % 200); /* one-byte entries (any values <= 240) */
    for (unsigned i = 0; i < 9; i++)
        in[2 + DN + i] = cnt[i];
    for (unsigned i = 0; i < TAIL; i++)
        in[2 + DN + 9 + i] = tail[i];
#if INTO
    uint64_t *out = vp_exact(CAP * sizeof(uint64_t));
    size_t d = varintDictDecodeInto(in, L, out, CAP);
    VP_ASSERT("P:dictbig.into_result_bounded", d <= CAP && (d == 0 || 2 * d <= 8 + TAIL));
#else
    size_t c = 0;
    uint64_t *o = varintDictDecode(in, L, &c);
    if (o) {
        /* every index takes 2 bytes and the count varint at least one */
        VP_ASSERT("P:dictbig.decode_result_bounded", c >= 0 && 2 * c <= 8 + TAIL);
        for (unsigned i = 0; i < (8 + TAIL) / 2; i++)
            if (i < c)
                VP_ASSERT("P:dictbig.decode_values_are_entries", o[i] < 200);
        free(o);
    }
#endif
    VP_ASSERT("P:dictbig.no_leak", vp_live == 0);
    VP_REACH();
}
