/* C14: Elias gamma / delta array decoders with a declared bit count.
 * -DDELTA=0 gamma, -DDELTA=1 delta.
 *
 * default : src = object of exactly L bytes, every content; srcBits symbolic,
 *           <= 8 * L; values = object of exactly CAP elements.  Oracles: CBMC
 *           bounds checks (no read at/after byte L, no write past CAP values),
 *           unwinding assertions (zero run <= 65, payload <= 65, values <= CAP+1),
 *           result <= CAP, result <= srcBits (a code word has >= 1 bit), every
 *           decoded value >= 1 (0 is not encodable).
 * -DNI    : same, plus "reads nothing at or beyond srcBits" at BIT granularity
 *           as non-interference: a second input that agrees with the first on
 *           bits [0, srcBits) (MSB first) must give the same count and values.
 * -DVALID : NV symbolic values in 1..VMAX are encoded by the REAL encoder;
 *           decoding with the encoder's totalBits returns the input, decoding
 *           with any smaller bit count returns exactly the values whose code
 *           words fit completely (prefix-free code: a short result, never a
 *           wrong or extra value). */
#include "vp.h"
#include "varintElias.h"

#ifndef L
#define L 2
#endif
#ifndef CAP
#define CAP 4
#endif
#ifndef DELTA
#define DELTA 0
#endif
#ifndef NV
#define NV 2
#endif
#ifndef VMAX
#define VMAX 255
#endif

#if DELTA
#define DECODE_ARRAY varintEliasDeltaDecodeArray
#define ENCODE_ARRAY varintEliasDeltaEncodeArray
#else
#define DECODE_ARRAY varintEliasGammaDecodeArray
#define ENCODE_ARRAY varintEliasGammaEncodeArray
#endif

#ifdef VALID
/* code length from the definition: gamma(v) = 2*floor(log2 v) + 1,
 * delta(v) = gamma(floor(log2 v) + 1) + floor(log2 v) */
static unsigned ref_log2(uint64_t v) {
    unsigned n = 0;
    for (unsigned i = 1; i < 64; i++)
        if (v >> i)
            n = i;
    return n;
}
static unsigned ref_codelen(uint64_t v) {
    unsigned n = ref_log2(v);
#if DELTA
    return 2 * ref_log2((uint64_t)n + 1) + 1 + n;
#else
    return 2 * n + 1;
#endif
}
#endif

void harness(void) {
#ifdef VALID
    VP_IN_ARR(uint64_t, vals, NV);
    VP_IN(uint32_t, bits);
    for (int i = 0; i < NV; i++)
        VP_ASSUME(vals[i] >= 1 && vals[i] <= (uint64_t)(VMAX));
    uint8_t enc[NV * 17 + 1]; /* >= varintElias{Gamma,Delta}MaxBytes(NV) */
    varintEliasMeta meta;
    size_t bytes = ENCODE_ARRAY(enc, vals, NV, &meta);
    size_t total = 0;
    for (int i = 0; i < NV; i++)
        total += ref_codelen(vals[i]);
    VP_ASSERT("P:elias.valid_total_bits", meta.totalBits == total && bytes == (total + 7) / 8);
    uint64_t *out = vp_exact(NV * sizeof(uint64_t));
    size_t d = DECODE_ARRAY(enc, meta.totalBits, out, NV);
    VP_ASSERT("P:elias.valid_count", d == NV);
    for (int i = 0; i < NV; i++)
        VP_ASSERT("P:elias.valid_values", out[i] == vals[i]);
    /* every truncation */
    VP_ASSUME(bits < total);
    size_t fit = 0, acc = 0;
    for (int i = 0; i < NV; i++) {
        acc += ref_codelen(vals[i]);
        if (acc <= bits)
            fit = (size_t)i + 1;
    }
    uint64_t *out2 = vp_exact(NV * sizeof(uint64_t));
    size_t t = DECODE_ARRAY(enc, bits, out2, NV);
    VP_ASSERT("P:elias.valid_truncated_short_count", t == fit);
    for (int i = 0; i < NV; i++)
        if ((size_t)i < t)
            VP_ASSERT("P:elias.valid_truncated_prefix_values", out2[i] == vals[i]);
#else
    VP_IN_ARR(uint8_t, in, L);
    VP_IN(uint32_t, bits);
    VP_ASSUME(bits <= 8 * L);
    uint8_t *src = vp_exact(L);
    for (int i = 0; i < L; i++)
        src[i] = in[i];
    uint64_t *out = vp_exact(CAP * sizeof(uint64_t));
    size_t d = DECODE_ARRAY(src, bits, out, CAP);
    VP_ASSERT("P:elias.count_le_capacity", d <= CAP);
    VP_ASSERT("P:elias.count_le_bits", d <= bits);
    for (unsigned i = 0; i < CAP; i++)
        if (i < d)
            VP_ASSERT("P:elias.values_positive", out[i] >= 1);
#ifdef NI
    VP_IN_ARR(uint8_t, in2, L);
    for (unsigned k = 0; k < 8 * L; k++)
        if (k < bits)
            VP_ASSUME(((in[k / 8] >> (7 - k % 8)) & 1) == ((in2[k / 8] >> (7 - k % 8)) & 1));
    uint8_t *src2 = vp_exact(L);
    for (int i = 0; i < L; i++)
        src2[i] = in2[i];
    uint64_t *outb = vp_exact(CAP * sizeof(uint64_t));
    size_t d2 = DECODE_ARRAY(src2, bits, outb, CAP);
    VP_ASSERT("P:elias.nothing_read_beyond_srcBits.count", d2 == d);
    for (unsigned i = 0; i < CAP; i++)
        if (i < d && i < d2)
            VP_ASSERT("P:elias.nothing_read_beyond_srcBits.values", outb[i] == out[i]);
#endif
#endif
    VP_REACH();
}
