/* C14 reference readers, written from the FORMAT TEXT only (header comment of
 * src/varintTagged.c "DECODE"), never by calling the library. */
#ifndef VP_C14_REFDEC_H
#define VP_C14_REFDEC_H
#include <stdint.h>

/* number of bytes a tagged varint announces in its first byte */
static inline unsigned ref_tagged_announced(uint8_t a0) {
    if (a0 <= 240)
        return 1;
    if (a0 <= 248)
        return 2;
    return (unsigned)a0 - 246u; /* 249 -> 3 ... 255 -> 9 */
}

/* value of the tagged varint at a[0..announced) (caller guarantees the bytes exist) */
static inline uint64_t ref_tagged_value(const uint8_t *a) {
    uint8_t a0 = a[0];
    if (a0 <= 240)
        return a0;
    if (a0 <= 248)
        return 240u + 256u * (uint64_t)(a0 - 241u) + a[1];
    if (a0 == 249)
        return 2288u + 256u * (uint64_t)a[1] + a[2];
    unsigned nb = (unsigned)a0 - 247u; /* 250 -> 3 ... 255 -> 8 big-endian bytes */
    uint64_t v = 0;
    for (unsigned i = 0; i < 8; i++)
        if (i < nb)
            v = (v << 8) | a[1 + i];
    return v;
}
#endif
