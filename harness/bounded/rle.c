/* C14: run counter varintRLEGetRunCount(src, encodedSize).
 *
 * default : src = object of exactly L bytes, every content.  Oracles: CBMC
 *           bounds checks (no read at/after L), unwinding assertions with the
 *           loop bound L/2 + 1 (termination), and from the format text (a run
 *           is [length varint][value varint], each >= 1 byte): the number of
 *           runs reported for L bytes is at most L / 2.
 * -DVALID : NV symbolic values (<= VMAX) are encoded by the REAL encoder; the
 *           run counter over exactly the encoded bytes returns the number of
 *           runs counted by the harness from the input values, and over every
 *           strict prefix it returns at most the number of runs that fit
 *           completely (a short result, never more). */
#include "vp.h"
#include "varintRLE.h"
#include "refdec.h"

#ifndef L
#define L 3
#endif
#ifndef NV
#define NV 3
#endif

void harness(void) {
#ifdef VALID
    VP_IN_ARR(uint64_t, vals, NV);
    VP_IN(uint8_t, cut);
#ifdef VMAX
    for (int i = 0; i < NV; i++)
        VP_ASSUME(vals[i] <= (uint64_t)(VMAX));
#endif
    uint8_t enc[10 * NV + 10];
    for (unsigned i = 0; i < sizeof(enc); i++)
        enc[i] = 0xA5;
    size_t written = varintRLEEncode(enc, vals, NV, 0);
    size_t runs = 1;
    for (int i = 1; i < NV; i++)
        if (vals[i] != vals[i - 1])
            runs++;
    VP_ASSERT("P:rle.valid_encoder_size", written >= 2 * runs && written <= 10 * runs);
    VP_ASSERT("P:rle.valid_run_count", varintRLEGetRunCount(enc, written) == runs);
    /* every strict prefix: the runs that fit completely, counted from the
     * format (announced lengths), never more */
    VP_ASSUME(cut >= 1 && cut <= written);
    size_t plen = written - cut;
    size_t fit = 0, pos = 0;
    for (int i = 0; i < NV; i++) {
        if (pos < plen) {
            size_t a = ref_tagged_announced(enc[pos]);
            if (pos + a < plen) {
                size_t b = ref_tagged_announced(enc[pos + a]);
                if (pos + a + b <= plen) {
                    fit++;
                    pos += a + b;
                    continue;
                }
            }
            pos = plen;
        }
    }
    VP_ASSERT("P:rle.valid_truncated_short_count", varintRLEGetRunCount(enc, plen) <= fit);
#else
    VP_IN_ARR(uint8_t, in, L);
    uint8_t *src = vp_exact(L);
    for (int i = 0; i < L; i++)
        src[i] = in[i];
    size_t r = varintRLEGetRunCount(src, L);
    VP_ASSERT("P:rle.run_count_fits_input", r <= L / 2);
#endif
    VP_REACH();
}
