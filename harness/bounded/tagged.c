/* C14: the bounded tagged reader varintTaggedGet(z, n, &out).
 *
 * default      : z = object of exactly L bytes, arbitrary contents, n symbolic
 *                with n <= L (negative and zero included).  Oracle, from the
 *                format text: the first byte announces the length A;
 *                n < 1 or n < A  =>  result 0  ("cut short is reported as 0");
 *                n >= A          =>  result A and *out = the announced value.
 *                Reading z[i] for i >= L is a bounds failure (n == L is part of
 *                every query, so "nothing at or beyond n" is checked exactly).
 * -DVALID -DW=w: every truncation of every valid encoding of width w: v is any
 *                value the REAL encoder stores in w bytes; for every k in 0..w
 *                the first k bytes are copied to an object of exactly k bytes
 *                and read with n = k:  k < w => 0,  k == w => w and v. */
#include "vp.h"
#include "varintTagged.h"
#include "refdec.h"

#ifndef L
#define L 9
#endif
#ifndef W
#define W 9
#endif

#ifdef VALID
static void trunc_case(const uint8_t *enc, uint64_t v, unsigned k) {
    uint8_t *z = vp_exact(k);
    for (unsigned i = 0; i < k; i++)
        z[i] = enc[i];
    uint64_t out = ~v;
    unsigned r = varintTaggedGet(z, (int32_t)k, &out);
    if (k < W) {
        VP_ASSERT("P:tagged.valid_truncated_reports_0", r == 0);
    } else {
        VP_ASSERT("P:tagged.valid_full_length", r == W);
        VP_ASSERT("P:tagged.valid_full_value", out == v);
    }
}
#endif

void harness(void) {
#ifdef VALID
    VP_IN(uint64_t, v);
    uint8_t enc[9];
    for (int i = 0; i < 9; i++)
        enc[i] = 0xA5;
    unsigned w = varintTaggedPut64(enc, v);
    VP_ASSUME(w == W);
#define T(k)                                                                   \
    if ((k) <= W)                                                              \
        trunc_case(enc, v, (k));
    T(0) T(1) T(2) T(3) T(4) T(5) T(6) T(7) T(8) T(9)
#undef T
#else
    VP_IN_ARR(uint8_t, in, L);
    VP_IN(int32_t, n);
    VP_ASSUME(n <= L);
    uint8_t *z = vp_exact(L);
    for (int i = 0; i < L; i++)
        z[i] = in[i];
    const uint64_t SENT = 0x5EA15EA15EA15EA1ULL;
    uint64_t out = SENT;
    unsigned r = varintTaggedGet(z, n, &out);
    if (n < 1) {
        VP_ASSERT("P:tagged.no_input_reports_0", r == 0);
    } else {
        unsigned a = ref_tagged_announced(in[0]);
        if ((unsigned)n < a) {
            VP_ASSERT("P:tagged.cut_short_reports_0", r == 0);
        } else {
            uint8_t tmp[9];
            for (unsigned i = 0; i < 9; i++)
                tmp[i] = i < a ? in[i < L ? i : 0] : 0;
            VP_ASSERT("P:tagged.full_returns_announced_length", r == a);
            VP_ASSERT("P:tagged.full_value", out == ref_tagged_value(tmp));
        }
    }
#endif
    VP_REACH();
}
