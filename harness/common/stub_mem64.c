/* CBMC-only environment stubs: memcpy/memmove/memset/memcmp; this variant copies 8-byte words in memcpy
 * when source, destination and length are 8-byte multiples (so literal uint64 arrays stay literal after a copy:
 * a byte-wise copy of a 2 KiB array leaves byte_update terms that defeat constant propagation), bytes otherwise.
 * Reason (DESIGN.md 2.3): CBMC's built-in memset with a symbolic length gave a
 * spurious counterexample; the byte loops are exact and bounded per loop. */
#include <stddef.h>
#include <stdint.h>
void *memmove(void *d, const void *s, size_t n) {
    unsigned char *dd = d;
    const unsigned char *ss = s;
    if (dd < ss) {
        for (size_t i = 0; i < n; i++)
            dd[i] = ss[i];
    } else {
        for (size_t i = n; i > 0; i--)
            dd[i - 1] = ss[i - 1];
    }
    return d;
}
void *memcpy(void *d, const void *s, size_t n) {
    if (n % 8 == 0 && __CPROVER_POINTER_OFFSET(d) % 8 == 0 && __CPROVER_POINTER_OFFSET(s) % 8 == 0) {
        uint64_t *dw = d;
        const uint64_t *sw = s;
        for (size_t i = 0; i < n / 8; i++)
            dw[i] = sw[i];
        return d;
    }
    unsigned char *dd = d;
    const unsigned char *ss = s;
    for (size_t i = 0; i < n; i++)
        dd[i] = ss[i];
    return d;
}
void *memset(void *d, int c, size_t n) {
    unsigned char *dd = d;
    for (size_t i = 0; i < n; i++)
        dd[i] = (unsigned char)c;
    return d;
}
int memcmp(const void *a, const void *b, size_t n) {
    const unsigned char *aa = a, *bb = b;
    for (size_t i = 0; i < n; i++) {
        if (aa[i] != bb[i])
            return aa[i] < bb[i] ? -1 : 1;
    }
    return 0;
}
