/* CBMC-only qsort stub: insertion sort that calls the caller's real comparator.
 * Contract relied on: the output is a sorted permutation of the input. */
#include <stddef.h>
#include <stdint.h>
void qsort(void *base, size_t n, size_t sz, int (*cmp)(const void *, const void *)) {
    unsigned char *b = base;
    for (size_t i = 1; i < n; i++)
        for (size_t j = i; j > 0 && cmp(b + (j - 1) * sz, b + j * sz) > 0; j--)
            for (size_t k = 0; k < sz; k++) {
                unsigned char t = b[(j - 1) * sz + k];
                b[(j - 1) * sz + k] = b[j * sz + k];
                b[j * sz + k] = t;
            }
}
