/* vp.h — dual-mode harness vocabulary.
 *
 *  CBMC mode (default):   inputs are uninitialised locals (= unconstrained
 *                         symbolic values), VP_ASSUME/VP_ASSERT map to the
 *                         __CPROVER primitives.
 *  native mode (-DVP_NATIVE): inputs are read from the replay file named by
 *                         $VP_REPLAY (lines "name index hexvalue"), a failed
 *                         assumption exits 3, a failed assertion prints
 *                         "VP_ASSERT_FAIL <tag>" and exits 1.
 *
 *  Rules for harness authors (the driver's trace extraction relies on them):
 *   - every input is declared with VP_IN / VP_IN_ARR inside the function
 *     `harness` and never assigned afterwards;
 *   - every property assertion goes through VP_ASSERT with a tag;
 *   - the harness ends with VP_REACH() (must be reported FAILED by the solver).
 */
#ifndef VP_H
#define VP_H
#include <stddef.h>
#include <stdint.h>

#ifdef VP_NATIVE
#include <stdio.h>
#include <stdlib.h>
uint64_t vp_native_get(const char *name, long idx);
void vp_native_fail(const char *tag);
void vp_native_assume_fail(const char *what);
void vp_native_reached(void);
#define VP_IN(type, name) type name = (type)vp_native_get(#name, -1)
#define VP_IN_ARR(type, name, n)                                               \
    type name[(n) > 0 ? (n) : 1];                                              \
    for (long vp_i_##name = 0; vp_i_##name < (long)(n); vp_i_##name++)         \
    name[vp_i_##name] = (type)vp_native_get(#name, vp_i_##name)
#define VP_ASSUME(c)                                                           \
    do {                                                                       \
        if (!(c))                                                              \
            vp_native_assume_fail(#c);                                         \
    } while (0)
#define VP_ASSERT(tag, c)                                                      \
    do {                                                                       \
        if (!(c))                                                              \
            vp_native_fail(tag);                                               \
    } while (0)
#define VP_REACH() vp_native_reached()
#define VP_COVER_ONLY 0
#else
#define VP_IN(type, name) type name
#define VP_IN_ARR(type, name, n) type name[(n) > 0 ? (n) : 1]
#define VP_ASSUME(c) __CPROVER_assume(c)
#define VP_ASSERT(tag, c) __CPROVER_assert((c), tag)
#define VP_REACH() __CPROVER_assert(0, "VP_REACH")
#endif

/* exact-size heap object helper: in CBMC the size must be a compile-time
 * constant at the call site; natively ASan's redzones give the same
 * "one byte past the end is an error" oracle. */
void *vp_exact(size_t n);
void vp_release(void *p);

static inline double vp_bits_to_double(uint64_t b) {
    union {
        uint64_t u;
        double d;
    } x;
    x.u = b;
    return x.d;
}
static inline uint64_t vp_double_to_bits(double d) {
    union {
        uint64_t u;
        double d;
    } x;
    x.d = d;
    return x.u;
}
#endif
