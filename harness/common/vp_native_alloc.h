/* force-included (-include) into every translation unit of a native replay
 * build except vp_native_rt.c: routes the allocator through counting /
 * failure-injecting wrappers. */
#ifndef VP_NATIVE_ALLOC_H
#define VP_NATIVE_ALLOC_H
#include <stdlib.h>
void *vp_malloc(size_t n);
void *vp_calloc(size_t a, size_t b);
void *vp_realloc(void *p, size_t n);
void vp_free(void *p);
#ifndef VP_NATIVE_RT
#define malloc vp_malloc
#define calloc vp_calloc
#define realloc vp_realloc
#define free vp_free
#endif
#endif
