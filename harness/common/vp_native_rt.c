/* native replay runtime: reads "name index hexvalue" lines from $VP_REPLAY */
#define VP_NATIVE_RT
#include <stdint.h>
#include <stdio.h>
#include <stdlib.h>
#include <string.h>
#include "vp_native_alloc.h"
/* The driver force-includes vp_native_alloc.h into EVERY unit (-include), i.e.
 * before VP_NATIVE_RT is defined above, so the malloc -> vp_malloc macros are
 * active here too and the wrappers below would call themselves (unbounded
 * recursion = every replay that allocates "reproduced" as a stack overflow). */
#undef malloc
#undef calloc
#undef realloc
#undef free

struct ent {
    char name[64];
    long idx;
    uint64_t val;
};
static struct ent *tab;
static size_t ntab;
static int loaded;

static void load(void) {
    loaded = 1;
    const char *fn = getenv("VP_REPLAY");
    if (!fn)
        return;
    FILE *f = fopen(fn, "r");
    if (!f) {
        fprintf(stderr, "VP_NATIVE: cannot open %s\n", fn);
        exit(4);
    }
    char name[64];
    long idx;
    unsigned long long v;
    size_t cap = 0;
    while (fscanf(f, "%63s %ld %llx", name, &idx, &v) == 3) {
        if (ntab == cap) {
            cap = cap ? cap * 2 : 64;
            tab = realloc(tab, cap * sizeof(*tab));
        }
        strcpy(tab[ntab].name, name);
        tab[ntab].idx = idx;
        tab[ntab].val = v;
        ntab++;
    }
    fclose(f);
}
uint64_t vp_native_get(const char *name, long idx) {
    if (!loaded)
        load();
    for (size_t i = ntab; i > 0; i--)
        if (tab[i - 1].idx == idx && !strcmp(tab[i - 1].name, name))
            return tab[i - 1].val;
    return 0;
}
void vp_native_fail(const char *tag) {
    printf("VP_ASSERT_FAIL %s\n", tag);
    fflush(stdout);
    _exit(1);
}
void vp_native_assume_fail(const char *what) {
    printf("VP_ASSUME_FAIL %s\n", what);
    fflush(stdout);
    _exit(3);
}
void vp_native_reached(void) {
    printf("VP_REACHED\n");
    fflush(stdout);
}
unsigned vp_alloc_calls, vp_fail_at, vp_live, vp_alloc_failed;
void *vp_malloc(size_t n) {
    vp_alloc_calls++;
    if (vp_alloc_calls == vp_fail_at) {
        vp_alloc_failed = 1;
        return 0;
    }
    void *p = malloc(n);
    if (p)
        vp_live++;
    return p;
}
void *vp_calloc(size_t a, size_t b) {
    vp_alloc_calls++;
    if (vp_alloc_calls == vp_fail_at) {
        vp_alloc_failed = 1;
        return 0;
    }
    void *p = calloc(a, b);
    if (p)
        vp_live++;
    return p;
}
void *vp_realloc(void *p, size_t n) {
    vp_alloc_calls++;
    if (vp_alloc_calls == vp_fail_at) {
        vp_alloc_failed = 1;
        return 0;
    }
    void *q = realloc(p, n);
    if (q && !p)
        vp_live++;
    return q;
}
void vp_free(void *p) {
    if (p)
        vp_live--;
    free(p);
}
void *vp_exact(size_t n) {
    void *p = malloc(n ? n : 1);
    if (!p)
        exit(4);
    /* n == 0: hand out a pointer to the END of a 1-byte object so that any
     * access is out of bounds for ASan too */
    return n ? p : (char *)p + 1;
}
void vp_release(void *p) { (void)p; }
void harness(void);
int main(void) {
    harness();
    return 0;
}
