/* CBMC side of vp_exact: an object of exactly n bytes with symbolic contents */
#include <stddef.h>
void *__CPROVER_allocate(__CPROVER_size_t size, __CPROVER_bool zero);
void *vp_exact(size_t n) { return __CPROVER_allocate(n, 0); }
void vp_release(void *p) { (void)p; }
