/* C17(a): two threads call the same pure entry point concurrently on a shared
 * read-only input and private (disjoint) outputs; CBMC explores all interleavings
 * (sequential consistency).  After joining, each thread's result must equal what
 * the call returns when run alone (computed sequentially beforehand).
 * FAM: 0 tagged put/get, 1 external put/get, 2 chained, 3 chained-simple,
 *      4 split macros, 5 packed 12-bit arrays on disjoint storage,
 *      6 bitstream on disjoint storage, 7 tagged in-place add on private slots */
#include "vp.h"
#include <pthread.h>
#include "varintTagged.h"
#include "varintExternal.h"
#include "varintChained.h"
#include "varintChainedSimple.h"
#include "varintSplit.h"
#include "varintBitstream.h"
#define PACK_STORAGE_BITS 12
#define PACK_STORAGE_SLOT_STORAGE_TYPE uint8_t
#define PACK_STORAGE_MICRO_PROMOTION_TYPE uint16_t
#define PACK_STATIC
#include "varintPacked.h"

static uint64_t shared_in[2]; /* shared, read-only while the threads run */
/* no arrays of arrays (CBMC 6.11 mis-models byte updates through a pointer into a row of a 2-D array) */
static uint8_t oa_[16], ob_[16]; /* private outputs */
static uint8_t *const o[2] = {oa_, ob_};
static uint64_t ov[2];
static unsigned on[2];
static uint64_t bsa_[3], bsb_[3];
static uint64_t *const bs[2] = {bsa_, bsb_};

static void work(int t, uint8_t *out, uint64_t *val, unsigned *len, uint64_t *stream) {
    const uint64_t v = shared_in[t];
    (void)stream;
#if FAM == 0
    *len = varintTaggedPut64(out, v);
    varintTaggedGet64(out, val);
#elif FAM == 1
    *len = varintExternalPut(out, v);
    *val = varintExternalGet(out, (varintWidth)*len);
#elif FAM == 2
    *len = varintChainedPutVarint(out, v);
    varintChainedGetVarint(out, val);
#elif FAM == 3
    *len = varintChainedSimpleEncode64(out, v);
    varintChainedSimpleDecode64(out, val);
#elif FAM == 4
    uint8_t l = 0, g = 0;
    uint64_t r = 0;
    varintSplitPut_(out, l, v);
    varintSplitGet_(out, g, r);
    *len = l;
    *val = r;
#elif FAM == 5
    varintPacked12Set(out, 1, (uint16_t)(v & 0xfff));
    varintPacked12Set(out, 2, (uint16_t)((v >> 12) & 0xfff));
    *val = varintPacked12Get(out, 1) | ((uint64_t)varintPacked12Get(out, 2) << 12);
    *len = 0;
#elif FAM == 6
    varintBitstreamSet(stream, 60, 12, v & 0xfff);
    *val = varintBitstreamGet(stream, 60, 12);
    *len = 0;
#else
    varintTaggedPut64(out, v);
    *len = varintTaggedAddGrow(out, 1);
    varintTaggedGet64(out, val);
#endif
}
static void *t0(void *a) {
    (void)a;
    work(0, o[0], &ov[0], &on[0], bs[0]);
    return 0;
}
static void *t1(void *a) {
    (void)a;
    work(1, o[1], &ov[1], &on[1], bs[1]);
    return 0;
}

void harness(void) {
    VP_IN(uint64_t, a);
    VP_IN(uint64_t, b);
    VP_IN(uint8_t, fill);
#if FAM == 7
    VP_ASSUME(a < (1ull << 62) && b < (1ull << 62));
#endif
    shared_in[0] = a;
    shared_in[1] = b;
    uint8_t ra_[16], rb_[16];
    uint8_t *const r[2] = {ra_, rb_};
    uint64_t rv[2], rsa_[3], rsb_[3];
    uint64_t *const rs[2] = {rsa_, rsb_};
    unsigned rn[2];
    for (int t = 0; t < 2; t++) {
        for (int i = 0; i < 16; i++)
            r[t][i] = o[t][i] = fill;
        for (int i = 0; i < 3; i++)
            rs[t][i] = bs[t][i] = fill;
    }
    /* sequential reference runs */
    work(0, r[0], &rv[0], &rn[0], rs[0]);
    work(1, r[1], &rv[1], &rn[1], rs[1]);
    pthread_t x, y;
    pthread_create(&x, 0, t0, 0);
    pthread_create(&y, 0, t1, 0);
    pthread_join(x, 0);
    pthread_join(y, 0);
    for (int t = 0; t < 2; t++) {
        VP_ASSERT("P:conc.same_len_as_alone", on[t] == rn[t]);
        VP_ASSERT("P:conc.same_value_as_alone", ov[t] == rv[t]);
        for (int i = 0; i < 16; i++)
            VP_ASSERT("P:conc.same_bytes_as_alone", o[t][i] == r[t][i]);
        for (int i = 0; i < 3; i++)
            VP_ASSERT("P:conc.same_stream_as_alone", bs[t][i] == rs[t][i]);
    }
    VP_REACH();
}
