/* C15: results depend only on the arguments (self-composition).
 * The selected API call runs twice on EQUAL arguments but independent residue:
 * output buffers and metadata structs pre-filled with different symbolic bytes,
 * and - CBMC semantics - every uninitialised local and every fresh heap object
 * holds an arbitrary, independent value in each run.  Returned sizes, the bytes up
 * to the returned size / the decoded elements, and every metadata field that is
 * documented as an output must be equal.
 * CODEC selects the entry point (see the switch below), N the element count. */
#include "vp.h"
#include "varintAdaptive.h"
#include "varintBP128.h"
#include "varintDelta.h"
#include "varintDict.h"
#include "varintElias.h"
#include "varintFOR.h"
#include "varintFloat.h"
#include "varintGroup.h"
#include "varintPFOR.h"
#include "varintRLE.h"
#define VP_ALLOC_SIZES X(0) X(1) X(2) X(3) X(4) X(6) X(8) X(16) X(24) X(32) X(40) X(48) X(64) X(128) X(sizeof(varintBitmap))
#include "vp_alloc.inc"
#ifndef N
#define N 2
#endif
#define BUF 96
#define MS 64 /* metadata scratch, larger than any meta struct */

/* run r writes into out[r], uses meta scratch ms[r]; returns the call's result */
/* NOTE: no arrays of arrays. CBMC 6.11 mis-models byte updates through a pointer into a row of a 2-D array
 * (`uint8_t out[2][BUF]`: the second varintBP128Encode64 call "lost" the bits of its second value - a counterexample
 * that reproduces neither natively nor with two separate 1-D arrays), so every buffer is its own object. */
static uint8_t o0_[BUF], o1_[BUF];
static uint8_t *const out[2] = {o0_, o1_};
static uint64_t d0_[N + 1], d1_[N + 1];
static uint64_t *const dec[2] = {d0_, d1_};
static union vp_meta_scratch {
    uint8_t raw[MS];
    varintFORMeta f;
    varintPFORMeta p;
    varintRLEMeta r;
    varintEliasMeta e;
    varintBP128Meta b;
    varintAdaptiveMeta a;
    varintAdaptiveDataStats s;
} m0_, m1_;
static union vp_meta_scratch *const msp[2] = {&m0_, &m1_};

#define EQ(tag, expr) VP_ASSERT("P:determ." tag, (expr))

void harness(void) {
    VP_IN_ARR(uint64_t, v, N);
    VP_IN_ARR(uint8_t, resid0, BUF);
    VP_IN_ARR(uint8_t, resid1, BUF);
    VP_IN_ARR(uint8_t, mres0, MS);
    VP_IN_ARR(uint8_t, mres1, MS);
    for (unsigned i = 0; i < BUF; i++) {
        out[0][i] = resid0[i];
        out[1][i] = resid1[i];
    }
    for (unsigned i = 0; i < MS; i++) {
        msp[0]->raw[i] = mres0[i];
        msp[1]->raw[i] = mres1[i];
    }
    for (unsigned i = 0; i <= N; i++) {
        dec[0][i] = resid0[i];
        dec[1][i] = resid1[i];
    }
    size_t w[2];
    uint32_t v32[N];
    for (unsigned i = 0; i < N; i++)
        v32[i] = (uint32_t)v[i];
    (void)v32;
#if CODEC >= 20 && CODEC < 30 /* adaptive forced encodings 20..25 */
    for (int r = 0; r < 2; r++)
        w[r] = varintAdaptiveEncodeWith(out[r], v, N, (varintAdaptiveEncodingType)(CODEC - 20), &msp[r]->a);
    EQ("adaptive.encodewith.len", w[0] == w[1]);
    for (unsigned i = 0; i < BUF; i++)
        if (i < w[0])
            EQ("adaptive.encodewith.bytes", out[0][i] == out[1][i]);
    EQ("adaptive.encodewith.meta", msp[0]->a.encodingType == msp[1]->a.encodingType && msp[0]->a.originalCount == msp[1]->a.originalCount &&
                                       msp[0]->a.encodedSize == msp[1]->a.encodedSize);
#if CODEC == 21
    EQ("adaptive.encodewith.formeta", msp[0]->a.encodingMeta.forMeta.minValue == msp[1]->a.encodingMeta.forMeta.minValue &&
                                          msp[0]->a.encodingMeta.forMeta.offsetWidth == msp[1]->a.encodingMeta.forMeta.offsetWidth &&
                                          msp[0]->a.encodingMeta.forMeta.count == msp[1]->a.encodingMeta.forMeta.count);
#endif
    /* decode side: equal encoded bytes, different residue.  The header byte is asserted and then handed over as a
     * literal so that symbolic execution follows one arm of the decoder's dispatch. */
    EQ("adaptive.header_byte", w[0] == 0 || out[0][0] == (CODEC - 20));
    VP_ASSUME(w[0] != 0 && out[0][0] == (CODEC - 20));
    uint8_t e0[BUF], e1[BUF];
    e0[0] = e1[0] = (CODEC - 20);
    for (unsigned i = 1; i < BUF; i++)
        e0[i] = e1[i] = out[0][i];
    size_t d0 = varintAdaptiveDecode(e0, dec[0], N, &msp[0]->a);
    size_t d1 = varintAdaptiveDecode(e1, dec[1], N, &msp[1]->a);
    EQ("adaptive.decode.count", d0 == d1);
    for (unsigned i = 0; i < N; i++)
        if (i < d0)
            EQ("adaptive.decode.values", dec[0][i] == dec[1][i]);
    EQ("adaptive.decode.meta", msp[0]->a.encodingType == msp[1]->a.encodingType && msp[0]->a.originalCount == msp[1]->a.originalCount);
#if CODEC == 22
    EQ("adaptive.decode.pformeta",
       msp[0]->a.encodingMeta.pforMeta.min == msp[1]->a.encodingMeta.pforMeta.min &&
           msp[0]->a.encodingMeta.pforMeta.width == msp[1]->a.encodingMeta.pforMeta.width &&
           msp[0]->a.encodingMeta.pforMeta.count == msp[1]->a.encodingMeta.pforMeta.count &&
           msp[0]->a.encodingMeta.pforMeta.exceptionCount == msp[1]->a.encodingMeta.pforMeta.exceptionCount &&
           msp[0]->a.encodingMeta.pforMeta.exceptionMarker == msp[1]->a.encodingMeta.pforMeta.exceptionMarker &&
           msp[0]->a.encodingMeta.pforMeta.thresholdValue == msp[1]->a.encodingMeta.pforMeta.thresholdValue);
#endif
#elif CODEC == 30 /* automatic analysis + selection */
    for (int r = 0; r < 2; r++)
        varintAdaptiveAnalyze(v, N, &msp[r]->s);
    EQ("adaptive.analyze", msp[0]->s.count == msp[1]->s.count && msp[0]->s.minValue == msp[1]->s.minValue && msp[0]->s.maxValue == msp[1]->s.maxValue &&
                               msp[0]->s.range == msp[1]->s.range && msp[0]->s.uniqueCount == msp[1]->s.uniqueCount &&
                               msp[0]->s.avgDelta == msp[1]->s.avgDelta && msp[0]->s.maxDelta == msp[1]->s.maxDelta &&
                               msp[0]->s.outlierCount == msp[1]->s.outlierCount && msp[0]->s.isSorted == msp[1]->s.isSorted &&
                               msp[0]->s.isReverseSorted == msp[1]->s.isReverseSorted && msp[0]->s.fitsInBitmapRange == msp[1]->s.fitsInBitmapRange);
    EQ("adaptive.select", varintAdaptiveSelectEncoding(&msp[0]->s) == varintAdaptiveSelectEncoding(&msp[1]->s));
#elif CODEC == 1 /* FOR: meta->count != N is the documented "not analysed yet" in-field */
    VP_ASSUME(msp[0]->f.count != N && msp[1]->f.count != N);
    for (int r = 0; r < 2; r++)
        w[r] = varintFOREncode(out[r], v, N, &msp[r]->f);
    EQ("for.len", w[0] == w[1]);
    for (unsigned i = 0; i < BUF; i++)
        if (i < w[0])
            EQ("for.bytes", out[0][i] == out[1][i]);
    EQ("for.meta", msp[0]->f.minValue == msp[1]->f.minValue && msp[0]->f.maxValue == msp[1]->f.maxValue && msp[0]->f.range == msp[1]->f.range &&
                       msp[0]->f.count == msp[1]->f.count && msp[0]->f.encodedSize == msp[1]->f.encodedSize &&
                       msp[0]->f.offsetWidth == msp[1]->f.offsetWidth);
    for (unsigned i = 0; i < BUF; i++)
        out[1][i] = out[0][i];
    EQ("for.decode", varintFORDecode(out[0], dec[0], N) == varintFORDecode(out[1], dec[1], N));
    for (unsigned i = 0; i < N; i++)
        EQ("for.decode.values", dec[0][i] == dec[1][i]);
    varintFORReadMetadata(out[0], &msp[0]->f);
    varintFORReadMetadata(out[1], &msp[1]->f);
    EQ("for.readmeta", msp[0]->f.minValue == msp[1]->f.minValue && msp[0]->f.maxValue == msp[1]->f.maxValue && msp[0]->f.range == msp[1]->f.range &&
                           msp[0]->f.count == msp[1]->f.count && msp[0]->f.encodedSize == msp[1]->f.encodedSize &&
                           msp[0]->f.offsetWidth == msp[1]->f.offsetWidth);
#elif CODEC == 2 /* PFOR */
    for (int r = 0; r < 2; r++)
        w[r] = varintPFOREncode(out[r], v, N, 95, &msp[r]->p);
    EQ("pfor.len", w[0] == w[1]);
    for (unsigned i = 0; i < BUF; i++)
        if (i < w[0])
            EQ("pfor.bytes", out[0][i] == out[1][i]);
    EQ("pfor.meta", msp[0]->p.min == msp[1]->p.min && msp[0]->p.exceptionMarker == msp[1]->p.exceptionMarker &&
                        msp[0]->p.thresholdValue == msp[1]->p.thresholdValue && msp[0]->p.width == msp[1]->p.width && msp[0]->p.count == msp[1]->p.count &&
                        msp[0]->p.exceptionCount == msp[1]->p.exceptionCount && msp[0]->p.threshold == msp[1]->p.threshold);
    for (unsigned i = 0; i < BUF; i++)
        out[1][i] = out[0][i];
    /* documented in-field of the decoder: width == 0 means "read the header" */
    for (unsigned i = 0; i < MS; i++) {
        msp[0]->raw[i] = mres0[i];
        msp[1]->raw[i] = mres1[i];
    }
    msp[0]->p.width = 0;
    msp[1]->p.width = 0;
    EQ("pfor.decode", varintPFORDecode(out[0], dec[0], &msp[0]->p) == varintPFORDecode(out[1], dec[1], &msp[1]->p));
    for (unsigned i = 0; i < N; i++)
        EQ("pfor.decode.values", dec[0][i] == dec[1][i]);
    EQ("pfor.readmeta", msp[0]->p.min == msp[1]->p.min && msp[0]->p.exceptionMarker == msp[1]->p.exceptionMarker && msp[0]->p.width == msp[1]->p.width &&
                            msp[0]->p.count == msp[1]->p.count && msp[0]->p.exceptionCount == msp[1]->p.exceptionCount &&
                            msp[0]->p.threshold == msp[1]->p.threshold && msp[0]->p.thresholdValue == msp[1]->p.thresholdValue);
#elif CODEC == 3 /* RLE both formats */
    for (int r = 0; r < 2; r++)
        w[r] = varintRLEEncodeWithHeader(out[r], v, N, &msp[r]->r);
    EQ("rle.len", w[0] == w[1]);
    for (unsigned i = 0; i < BUF; i++)
        if (i < w[0])
            EQ("rle.bytes", out[0][i] == out[1][i]);
    EQ("rle.meta", msp[0]->r.count == msp[1]->r.count && msp[0]->r.runCount == msp[1]->r.runCount && msp[0]->r.encodedSize == msp[1]->r.encodedSize &&
                       msp[0]->r.uniqueValues == msp[1]->r.uniqueValues);
    for (unsigned i = 0; i < BUF; i++)
        out[1][i] = out[0][i];
    EQ("rle.decode", varintRLEDecodeWithHeader(out[0], dec[0], N) == varintRLEDecodeWithHeader(out[1], dec[1], N));
    for (unsigned i = 0; i < N; i++)
        EQ("rle.decode.values", dec[0][i] == dec[1][i]);
    varintRLEAnalyze(v, N, &msp[0]->r);
    varintRLEAnalyze(v, N, &msp[1]->r);
    EQ("rle.analyze", msp[0]->r.count == msp[1]->r.count && msp[0]->r.runCount == msp[1]->r.runCount && msp[0]->r.encodedSize == msp[1]->r.encodedSize &&
                          msp[0]->r.uniqueValues == msp[1]->r.uniqueValues);
#elif CODEC == 4 /* Elias gamma + delta arrays */
    for (unsigned i = 0; i < N; i++)
        VP_ASSUME(v[i] >= 1);
    for (int r = 0; r < 2; r++)
        w[r] = varintEliasGammaEncodeArray(out[r], v, N, &msp[r]->e);
    EQ("elias.gamma.len", w[0] == w[1]);
    for (unsigned i = 0; i < BUF; i++)
        if (i < w[0])
            EQ("elias.gamma.bytes", out[0][i] == out[1][i]);
    EQ("elias.gamma.meta", msp[0]->e.count == msp[1]->e.count && msp[0]->e.totalBits == msp[1]->e.totalBits && msp[0]->e.encodedBytes == msp[1]->e.encodedBytes);
#elif CODEC == 5 /* BP128 four encoders */
    for (unsigned i = 1; i < N; i++)
        VP_ASSUME(v[i - 1] <= v[i]);
#if SUB == 0
#define BPENC(r) varintBP128Encode32(out[r], v32, N, &msp[r]->b)
#elif SUB == 1
#define BPENC(r) varintBP128Encode64(out[r], v, N, &msp[r]->b)
#elif SUB == 2
#define BPENC(r) varintBP128DeltaEncode32(out[r], v32, N, &msp[r]->b)
#else
#define BPENC(r) varintBP128DeltaEncode64(out[r], v, N, &msp[r]->b)
#endif
    w[0] = BPENC(0);
    w[1] = BPENC(1);
    EQ("bp128.len", w[0] == w[1]);
    for (unsigned i = 0; i < BUF; i++)
        if (i < w[0])
            EQ("bp128.bytes", out[0][i] == out[1][i]);
    EQ("bp128.meta", msp[0]->b.count == msp[1]->b.count && msp[0]->b.blockCount == msp[1]->b.blockCount && msp[0]->b.encodedBytes == msp[1]->b.encodedBytes &&
                         msp[0]->b.lastBlockSize == msp[1]->b.lastBlockSize && msp[0]->b.maxBitWidth == msp[1]->b.maxBitWidth);
#elif CODEC == 6 /* dictionary */
    for (int r = 0; r < 2; r++)
        w[r] = varintDictEncode(out[r], v, N);
    EQ("dict.len", w[0] == w[1]);
    for (unsigned i = 0; i < BUF; i++)
        if (i < w[0])
            EQ("dict.bytes", out[0][i] == out[1][i]);
    for (unsigned i = 0; i < BUF; i++)
        out[1][i] = out[0][i];
    EQ("dict.decode", varintDictDecodeInto(out[0], w[0], dec[0], N) == varintDictDecodeInto(out[1], w[0], dec[1], N));
    for (unsigned i = 0; i < N; i++)
        EQ("dict.decode.values", dec[0][i] == dec[1][i]);
#elif CODEC == 7 /* group + delta */
    for (int r = 0; r < 2; r++)
        w[r] = varintGroupEncode(out[r], v, N);
    EQ("group.len", w[0] == w[1]);
    for (unsigned i = 0; i < BUF; i++)
        if (i < w[0])
            EQ("group.bytes", out[0][i] == out[1][i]);
    size_t x0 = varintDeltaEncodeUnsigned(out[0], v, N), x1 = varintDeltaEncodeUnsigned(out[1], v, N);
    EQ("delta.len", x0 == x1);
    for (unsigned i = 0; i < BUF; i++)
        if (i < x0)
            EQ("delta.bytes", out[0][i] == out[1][i]);
#elif CODEC == 8 /* float */
    double dv[N];
    for (unsigned i = 0; i < N; i++)
        dv[i] = vp_bits_to_double(v[i]);
    for (int r = 0; r < 2; r++)
        w[r] = varintFloatEncode(out[r], dv, N, (varintFloatPrecision)FPREC, (varintFloatEncodingMode)FMODE);
    EQ("float.len", w[0] == w[1]);
    for (unsigned i = 0; i < BUF; i++)
        if (i < w[0])
            EQ("float.bytes", out[0][i] == out[1][i]);
    for (unsigned i = 0; i < BUF; i++)
        out[1][i] = out[0][i];
    double o0[N], o1[N];
    for (unsigned i = 0; i < N; i++) {
        o0[i] = vp_bits_to_double(resid0[i]);
        o1[i] = vp_bits_to_double(resid1[i]);
    }
    EQ("float.decode", varintFloatDecode(out[0], N, o0) == varintFloatDecode(out[1], N, o1));
    for (unsigned i = 0; i < N; i++)
        EQ("float.decode.values", vp_double_to_bits(o0[i]) == vp_double_to_bits(o1[i]));
#endif
    EQ("no_leak", vp_live == 0);
    VP_REACH();
}
