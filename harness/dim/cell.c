/* C10(b): matrix cells behind a dimension header are independent.
 * KIND: 0 bit, 1 unsigned (W = entry bytes 1..8), 2 float, 3 double.
 * Geometry: rows <= MAXR, cols <= MAXC symbolic, stored in a header of symbolic
 * widths (wr 0..8, wc 1..8: the varintDimensionPair enum offers all 72). */
#include "vp.h"
#include "varintDimension.h"
#include "varintExternal.h"
#ifndef MAXR
#define MAXR 3
#endif
#ifndef MAXC
#define MAXC 5
#endif
#if KIND == 0
#define ESZ 1
#elif KIND == 1
#define ESZ W
#elif KIND == 2
#define ESZ 4
#else
#define ESZ 8
#endif
#define BUFSZ (16 + MAXR * MAXC * ESZ + 1)

void harness(void) {
    VP_IN(uint8_t, wr);
    VP_IN(uint8_t, wc);
    VP_IN(uint8_t, rows);
    VP_IN(uint8_t, cols);
    VP_IN(uint8_t, r);
    VP_IN(uint8_t, c);
    VP_IN(uint64_t, val);
    VP_IN_ARR(uint8_t, init, BUFSZ);
    VP_ASSUME(wr <= 8 && wc >= 1 && wc <= 8);
    VP_ASSUME(cols >= 1 && cols <= MAXC && rows <= MAXR);
    VP_ASSUME(wr == 0 ? rows == 0 : rows >= 1);
    unsigned nrows = wr == 0 ? 1 : rows;
    VP_ASSUME(r < nrows && c < cols);
#ifdef WRC
    VP_ASSUME(wr == (WRC) / 10 && wc == (WRC) % 10);
#endif
    uint8_t m[BUFSZ], b0[BUFSZ];
    for (unsigned i = 0; i < BUFSZ; i++)
        m[i] = init[i];
    const varintDimensionPair dim = (varintDimensionPair)VARINT_DIMENSION_PAIR_PAIR(wr, wc, 0);
    if (wr)
        varintExternalPutFixedWidth(m, rows, (varintWidth)wr);
    varintExternalPutFixedWidth(m + wr, cols, (varintWidth)wc);
    for (unsigned i = 0; i < BUFSZ; i++)
        b0[i] = m[i];
    const unsigned hdr = wr + wc;
    const unsigned cell = (unsigned)r * cols + c;
#if KIND == 0
    /* bit matrix: cell k is bit k%8 of byte hdr + k/8 */
    VP_IN(uint8_t, op); /* 0 set true, 1 set false, 2 toggle */
    VP_ASSUME(op <= 2);
    bool oldbit = (b0[hdr + cell / 8] >> (cell % 8)) & 1;
    VP_ASSERT("P:cell.bit.get_reads_cell", varintDimensionPairEntryGetBit(m, r, c, dim) == oldbit);
    bool expect;
    if (op == 0) {
        varintDimensionPairEntrySetBit(m, r, c, true, dim);
        expect = true;
    } else if (op == 1) {
        varintDimensionPairEntrySetBit(m, r, c, false, dim);
        expect = false;
    } else {
        bool prev = varintDimensionPairEntryToggleBit(m, r, c, dim);
        VP_ASSERT("P:cell.bit.toggle_returns_previous", prev == oldbit);
        expect = !oldbit;
    }
    VP_ASSERT("P:cell.bit.read_back", varintDimensionPairEntryGetBit(m, r, c, dim) == expect);
    for (unsigned i = 0; i < BUFSZ; i++) {
        uint8_t keep = (i == hdr + cell / 8) ? (uint8_t)~(1u << (cell % 8)) : 0xff;
        VP_ASSERT("P:cell.bit.isolation", (m[i] & keep) == (b0[i] & keep));
    }
#else
#if KIND == 1
    if (W < 8)
        VP_ASSUME((val >> (8 * (W % 8))) == 0);
    varintDimensionPairEntrySetUnsigned(m, r, c, val, (varintWidth)W, dim);
    VP_ASSERT("P:cell.unsigned.read_back", varintDimensionPairEntryGetUnsigned(m, r, c, (varintWidth)W, dim) == val);
#elif KIND == 2
    union { uint32_t u; float f; } fv, fr;
    fv.u = (uint32_t)val;
    varintDimensionPairEntrySetFloat(m, r, c, fv.f, dim);
    fr.f = varintDimensionPairEntryGetFloat(m, r, c, dim);
    VP_ASSERT("P:cell.float.read_back_bits", fr.u == fv.u);
#else
    union { uint64_t u; double f; } dv, dr;
    dv.u = val;
    varintDimensionPairEntrySetDouble(m, r, c, dv.f, dim);
    dr.f = varintDimensionPairEntryGetDouble(m, r, c, dim);
    VP_ASSERT("P:cell.double.read_back_bits", dr.u == dv.u);
#endif
    for (unsigned i = 0; i < BUFSZ; i++)
        if (i < hdr + cell * ESZ || i >= hdr + (cell + 1) * ESZ)
            VP_ASSERT("P:cell.isolation", m[i] == b0[i]);
    /* the cell is where the layout says: little-endian entry at hdr + cell*ESZ */
#if KIND == 1
    for (unsigned i = 0; i < ESZ; i++)
        VP_ASSERT("P:cell.unsigned.layout", m[hdr + cell * ESZ + i] == (uint8_t)(val >> (8 * i)));
#endif
#endif
    VP_REACH();
}
