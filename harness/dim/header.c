/* C10(a): (rows, cols) packed into one integer, and the variable-width
 * dimension header. */
#include "vp.h"
#include "varintDimension.h"
#include "varintExternal.h"
#include "../scalar/ref.h"

void harness(void) {
    VP_IN(uint64_t, rows);
    VP_IN(uint64_t, cols);
    VP_IN(uint8_t, fill);
    /* ---- nibble packing: supported up to PACKED_8 (32 bits per coordinate) */
    uint64_t packed = 0;
    varintDimensionPacked dim = 0;
    bool ok = varintDimensionPack(rows, cols, &packed, &dim);
    uint64_t mx = rows > cols ? rows : cols;
    VP_ASSERT("P:dim.pack_supported_iff_32bit", ok == (mx < (1ull << 32)));
    if (ok) {
        VP_ASSERT("P:dim.pack_dimension_range", dim >= 1 && dim <= 8);
        VP_ASSERT("P:dim.pack_dimension_minimal", mx < (1ull << (4 * dim)) && (dim == 1 || mx >= (1ull << (4 * (dim - 1)))));
        size_t r2 = ~rows, c2 = ~cols, r3 = ~rows, c3 = ~cols;
        varintDimensionUnpack(&r2, &c2, packed, dim);
        VP_ASSERT("P:dim.unpack", r2 == rows && c2 == cols);
        varintDimensionUnpack_(r3, c3, packed, dim);
        VP_ASSERT("P:dim.unpack_macro", r3 == rows && c3 == cols);
    }
    /* ---- variable-width header (a matrix has at least one column) */
    VP_ASSUME(cols >= 1);
    uint8_t buf[20];
    for (int i = 0; i < 20; i++)
        buf[i] = fill;
    varintDimensionPair d = varintDimensionPairEncode(buf + 1, rows, cols);
    unsigned wr = rows ? ref_bytes(rows) : 0, wc = ref_bytes(cols);
    unsigned gr = 99, gc = 99;
    VARINT_DIMENSION_PAIR_DEPAIR(gr, gc, d);
    VP_ASSERT("P:dim.pair_widths", gr == wr && gc == wc);
    VP_ASSERT("P:dim.pair_dimension_fn", varintDimensionPairDimension(rows, cols) == d);
    VP_ASSERT("P:dim.pair_byte_length", VARINT_DIMENSION_PAIR_BYTE_LENGTH(d) == wr + wc);
    VP_ASSERT("P:dim.pair_dense", !VARINT_DIMENSION_PAIR_IS_SPARSE(d));
    VP_ASSERT("P:dim.pair_repair", VARINT_DIMENSION_PAIR_PAIR(gr, gc, 0) == (int)d);
    uint64_t dr = wr ? varintExternalGet(buf + 1, (varintWidth)wr) : 0;
    uint64_t dc = varintExternalGet(buf + 1 + wr, (varintWidth)wc);
    VP_ASSERT("P:dim.header_decodes", dr == rows && dc == cols);
    for (unsigned i = 0; i < 20; i++)
        if (i < 1 || i >= 1 + wr + wc)
            VP_ASSERT("P:dim.header_occupies_announced_bytes", buf[i] == fill);
    VP_REACH();
}
