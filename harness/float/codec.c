/* C07: float codec round trip.  N doubles (compile-time N) given as symbolic BIT
 * PATTERNS, one precision PREC (0 FULL, 1 HIGH, 2 MEDIUM, 3 LOW) and one exponent
 * mode MODE (0 independent, 1 common exponent, 2 delta exponent) per query.
 *
 * AUTO=1: the precision is chosen by varintFloatEncodeAuto from a symbolic
 * requested relative error 0 < e < 1 (bit pattern `ebits`); the oracle then is
 * published_bound(selected) <= e and the round trip meets the selected
 * precision's bound.
 *
 * Oracle: fref.h (integer arithmetic on sign / exponent / mantissa fields). */
#include "vp.h"
#include "varintFloat.h"
#include "fref.h"

#ifndef N
#define N 2
#endif
#ifndef MODE
#define MODE 0
#endif
#ifndef AUTO
#define AUTO 0
#endif
#if AUTO
#undef PREC
#define PREC 0 /* buffer sized for the largest precision */
#endif

/* the library's scratch arrays: count*8, count*2 and normal_count*8 bytes */
#if N == 1
#define VP_ALLOC_SIZES X(2) X(8)
#elif N == 2
#define VP_ALLOC_SIZES X(4) X(8) X(16)
#elif N == 3
#define VP_ALLOC_SIZES X(6) X(8) X(16) X(24)
#elif N == 4
#define VP_ALLOC_SIZES X(8) X(16) X(24) X(32)
#else
#error "add the allocation sizes for this N"
#endif
#include "vp_alloc.inc"

void harness(void) {
    VP_IN_ARR(uint64_t, in, N);
#if AUTO
    VP_IN(uint64_t, ebits);
    /* 0 < e < 1: positive doubles order like their bit patterns; 1.0 = 0x3ff0...0 */
    VP_ASSUME(ebits > 0 && ebits < 0x3ff0000000000000ULL);
#endif
    double vals[N], out[N];
    for (unsigned i = 0; i < N; i++)
        vals[i] = vp_bits_to_double(in[i]);

    /* destination of exactly the advertised maximum (N and PREC are constants, so is adv):
     * one byte more written or read is a bounds failure */
    const size_t adv = varintFloatMaxEncodedSize(N, (varintFloatPrecision)PREC);
    uint8_t *enc = vp_exact(adv);

#if AUTO
    varintFloatPrecision sel = (varintFloatPrecision)0x7f;
    const size_t w = varintFloatEncodeAuto(enc, vals, N, vp_bits_to_double(ebits), (varintFloatEncodingMode)MODE, &sel);
    VP_ASSERT("P:float.auto.selects_a_precision", (unsigned)sel <= 3);
    const unsigned prec = (unsigned)sel;
    VP_ASSERT("P:float.auto.published_bound_le_requested", fref_bound_bits(prec) <= ebits);
#else
    const size_t w = varintFloatEncode(enc, vals, N, (varintFloatPrecision)PREC, (varintFloatEncodingMode)MODE);
    const unsigned prec = PREC;
#endif
    VP_ASSERT("P:float.encode_returns_size", w >= 4);
    VP_ASSERT("P:float.size_le_advertised", w <= adv);
    VP_ASSERT("P:float.size_le_advertised_for_precision", w <= varintFloatMaxEncodedSize(N, (varintFloatPrecision)prec));

    const size_t r = varintFloatDecode(enc, N, out);
    VP_ASSERT("P:float.decode_consumes_what_encode_wrote", r == w);

    const unsigned k = fref_kbits(prec);
    for (unsigned i = 0; i < N; i++) {
        const uint64_t ob = vp_double_to_bits(out[i]);
        if (prec == 0) {
            VP_ASSERT("P:float.full_bit_exact", ob == in[i]);
        } else if (fref_special(in[i])) {
            VP_ASSERT("P:float.special_bit_exact", ob == in[i]);
        } else {
            VP_ASSERT("P:float.normal_sign", (ob >> 63) == (in[i] >> 63));
            VP_ASSERT("P:float.normal_within_published_bound", fref_within(in[i], ob, k));
        }
    }
    VP_ASSERT("P:float.no_leak", vp_live == 0);
    vp_release(enc);
    VP_REACH();
}
