/* C07: the IEEE-754 field helpers the codec is built on, for every bit pattern.
 * varintFloat.h: Decompose "extracts sign, exponent, and mantissa ... returns true
 * if value is normal, false if special (NaN, Inf, denormal, zero)"; Compose
 * "reconstructs a double from sign, exponent, and mantissa components".
 * Oracle (integer fields, fref.h): the classification, the sign, and that
 * Compose undoes Decompose bit for bit on every normal value.  The numeric
 * convention of the exponent / mantissa components is not documented and is
 * deliberately not constrained here. */
#include "vp.h"
#include "varintFloat.h"
#include "fref.h"

void harness(void) {
    VP_IN(uint64_t, bits);
    uint64_t sign = 7, mant = 0;
    int16_t ex = 0;
    const bool normal = varintFloatDecompose(vp_bits_to_double(bits), &sign, &ex, &mant);
    VP_ASSERT("P:float.decompose.classifies", normal == !fref_special(bits));
    VP_ASSERT("P:float.decompose.sign", sign == (bits >> 63));
    if (normal) {
        const uint64_t back = vp_double_to_bits(varintFloatCompose(sign, ex, mant));
        VP_ASSERT("P:float.compose_undoes_decompose", back == bits);
    }
    VP_REACH();
}
