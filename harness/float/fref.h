/* Integer-only oracle for the float codec (C07).  Written from the IEEE-754
 * binary64 layout and the documentation in varintFloat.h; never calls the
 * library, never uses floating point.
 *
 *   bits = [sign:1][E:11][F:52]
 *   E == 0x7ff          NaN (F != 0) / infinity (F == 0)      "special"
 *   E == 0              zero (F == 0) / subnormal (F != 0)    "special"
 *   otherwise           normal: value = (2^52 + F) * 2^(E-1075)
 *
 * varintFloat.h: "special (NaN, Infinity, denormal, or zero)"; special values
 * are carried verbatim in every precision.  A precision with k mantissa bits
 * publishes the relative error bound 2^-k (varintFloatPrecisionMaxRelativeError). */
#ifndef FREF_H
#define FREF_H
#include <stdint.h>

#define FREF_FRAC ((1ULL << 52) - 1)

static inline unsigned fref_E(uint64_t b) { return (unsigned)((b >> 52) & 0x7ff); }
static inline uint64_t fref_F(uint64_t b) { return b & FREF_FRAC; }
static inline int fref_special(uint64_t b) { return fref_E(b) == 0x7ff || fref_E(b) == 0; }

/* published mantissa bits of a precision mode (table in varintFloat.h) */
static inline unsigned fref_kbits(unsigned precision) {
    return precision == 0 ? 52 : precision == 1 ? 23 : precision == 2 ? 10 : 4;
}

/* bit pattern of the published bound 2^-k as a double (0 for FULL = lossless) */
static inline uint64_t fref_bound_bits(unsigned precision) {
    return precision == 0 ? 0 : (uint64_t)(1023 - fref_kbits(precision)) << 52;
}

/* in: a NORMAL double (bit pattern), out: what the codec returned, k: published
 * mantissa bits.  True iff sign(out) == sign(in) and
 *      |out - in| <= |in| * 2^-k            (exactly, in integers)
 * or out is the same-signed infinity and `in`, rounded to nearest at the
 * reduced precision, carries out of the top binade (lies at or above the
 * midpoint between the largest reduced-precision finite value and 2^1024). */
static inline int fref_within(uint64_t in, uint64_t out, unsigned k) {
    if ((in >> 63) != (out >> 63))
        return 0;
    const unsigned E = fref_E(in), Eo = fref_E(out);
    const uint64_t M = fref_F(in) | (1ULL << 52); /* 2^52 <= M < 2^53 */
    if (Eo == 0x7ff) {
        if (fref_F(out) != 0)
            return 0; /* NaN out of a number */
        return E == 0x7fe && ((1ULL << 53) - M) <= (1ULL << (52 - k));
    }
    /* finite result, zero and subnormals included: value = Mo * 2^(Eo' - 1075) */
    const uint64_t Mo = Eo ? (fref_F(out) | (1ULL << 52)) : fref_F(out);
    const int d = (int)(Eo ? Eo : 1) - (int)E;
    if (d < -1 || d > 1)
        return 0; /* off by a factor >= 2 (up) or > 2 (down): far outside any bound <= 2^-4 */
    /* common scale 2^(E-1076): in = 2M, out = Mo << (d+1) */
    const uint64_t A = M << 1, B = Mo << (d + 1);
    const uint64_t diff = A > B ? A - B : B - A;
    /* diff * 2^k <= A  <=>  diff <= floor(A / 2^k)  (diff is an integer) */
    return diff <= (A >> k);
}
#endif
