/* C09: packed bit arrays.  Parameters (all -D):
 *   BITS       bit width 1..32
 *   SLOTBITS   8/16/32/64 (slot type uintN_t); with COMPACTDEF the header picks the slot type
 *   COMPACT    define PACK_STORAGE_COMPACT
 *   COMPACTDEF compact with the header's own slot selection (SLOTBITS must say what it picks)
 *   MICRO      micro promotion type (e.g. uint16_t); absent = none
 *   MAXEL      PACK_MAX_ELEMENTS (absent = default uint32_t length type)
 *   OP         0 Set/Get isolation+footprint   1 SetIncr   2 SetHalf
 *              3 InsertSorted 4 Insert 5 Delete 6 DeleteMember 7 Member/BinarySearch
 *   NEL        number of elements in the array (storage is exactly the slots NEL elements occupy,
 *              NEL+1 for the inserting ops)
 *   LASTONLY   index fixed to NEL-1 (footprint of the last element against the end of the object)
 */
#include "vp.h"
#define PACK_STORAGE_BITS BITS
#ifdef COMPACT
#define PACK_STORAGE_COMPACT
#endif
#ifndef COMPACTDEF
#if SLOTBITS == 8
#define PACK_STORAGE_SLOT_STORAGE_TYPE uint8_t
#elif SLOTBITS == 16
#define PACK_STORAGE_SLOT_STORAGE_TYPE uint16_t
#elif SLOTBITS == 32
#define PACK_STORAGE_SLOT_STORAGE_TYPE uint32_t
#else
#define PACK_STORAGE_SLOT_STORAGE_TYPE uint64_t
#endif
#endif
#ifdef MICRO
#define PACK_STORAGE_MICRO_PROMOTION_TYPE MICRO
#endif
#ifdef MAXEL
#define PACK_MAX_ELEMENTS MAXEL
#endif
#define PACK_FUNCTION_PREFIX vpk
#include "varintPacked.h"

#define FN(op) PACKED_NAME(PACKED_NAME(vpk, BITS), op)
#if BITS <= 8
typedef uint8_t val_t;
#elif BITS <= 16
typedef uint16_t val_t;
#else
typedef uint32_t val_t;
#endif
#if SLOTBITS == 8
typedef uint8_t slot_t;
#elif SLOTBITS == 16
typedef uint16_t slot_t;
#elif SLOTBITS == 32
typedef uint32_t slot_t;
#else
typedef uint64_t slot_t;
#endif

#define VMAX ((uint64_t)((1ull << BITS) - 1))
#if OP == 3 || OP == 4
#define CAPEL (NEL + 1)
#else
#define CAPEL (NEL)
#endif
#define NSLOTS ((CAPEL * BITS + SLOTBITS - 1) / SLOTBITS)
#define NSLOTS1 (NSLOTS > 0 ? NSLOTS : 1)

/* reference: element j = bits [j*BITS, (j+1)*BITS) of the bit stream in which
 * bit k is bit (k % SLOTBITS) of slot k / SLOTBITS ("right to left within slots") */
static uint64_t ref_get(const slot_t *s, unsigned j) {
    uint64_t v = 0;
    for (unsigned b = 0; b < BITS; b++) {
        unsigned k = j * BITS + b;
        v |= (uint64_t)((s[k / SLOTBITS] >> (k % SLOTBITS)) & 1) << b;
    }
    return v;
}

void harness(void) {
    VP_IN_ARR(slot_t, init, NSLOTS1);
    VP_IN(uint32_t, idx);
    VP_IN(uint64_t, val);
    slot_t *a = vp_exact(NSLOTS * sizeof(slot_t));
    slot_t before[NSLOTS1];
    for (unsigned i = 0; i < NSLOTS; i++)
        a[i] = before[i] = init[i];
    VP_ASSUME(val <= VMAX);
    (void)idx;

#if OP == 0 || OP == 1 || OP == 2
#ifdef LASTONLY
    VP_ASSUME(idx == NEL - 1);
#else
    VP_ASSUME(idx < NEL);
#endif
    uint64_t old = ref_get(before, idx);
#if OP == 0
    FN(Set)(a, idx, (val_t)val);
    uint64_t expect = val;
#elif OP == 1
    /* non-negative increment whose result stays in range */
    VP_ASSUME(old + val <= VMAX);
    FN(SetIncr)(a, idx, (int64_t)val);
    uint64_t expect = old + val;
#else
    FN(SetHalf)(a, idx);
    uint64_t expect = old / 2;
#endif
    VP_ASSERT("P:packed.get_after_write", FN(Get)(a, idx) == expect);
    VP_ASSERT("P:packed.layout", ref_get(a, idx) == expect);
    /* every bit outside element idx unchanged */
    for (unsigned s = 0; s < NSLOTS; s++) {
        slot_t keep = 0;
        for (unsigned b = 0; b < SLOTBITS; b++) {
            unsigned k = s * SLOTBITS + b;
            if (k < idx * BITS || k >= (idx + 1) * BITS)
                keep |= (slot_t)((slot_t)1 << b);
        }
        VP_ASSERT("P:packed.isolation_bits", (a[s] & keep) == (before[s] & keep));
    }
    for (unsigned j = 0; j < NEL; j++)
        if (j != idx)
            VP_ASSERT("P:packed.other_elements", FN(Get)(a, j) == ref_get(before, j));
#else
    /* sorted-array operations on a sorted array of NEL elements */
    uint64_t m[NEL + 2];
    for (unsigned j = 0; j < NEL; j++)
        m[j] = ref_get(before, j);
    for (unsigned j = 0; j + 1 < NEL; j++)
        VP_ASSUME(m[j] <= m[j + 1]);
    /* lower bound by definition */
    unsigned lb = 0;
    while (lb < NEL && m[lb] < val)
        lb++;
    int present = lb < NEL && m[lb] == val;
#if OP == 3
    FN(InsertSorted)(a, NEL, (val_t)val);
    for (unsigned j = 0; j < NEL + 1; j++) {
        uint64_t e = j < lb ? m[j] : (j == lb ? val : m[j - 1]);
        VP_ASSERT("P:packed.insert_sorted", FN(Get)(a, j) == e);
    }
#elif OP == 4
    VP_ASSUME(idx <= NEL);
    FN(Insert)(a, NEL, idx, (val_t)val);
    for (unsigned j = 0; j < NEL + 1; j++) {
        uint64_t e = j < idx ? m[j] : (j == idx ? val : m[j - 1]);
        VP_ASSERT("P:packed.insert_at", FN(Get)(a, j) == e);
    }
#elif OP == 5
    VP_ASSUME(idx < NEL);
    FN(Delete)(a, NEL, idx);
    for (unsigned j = 0; j + 1 < NEL; j++) {
        uint64_t e = j < idx ? m[j] : m[j + 1];
        VP_ASSERT("P:packed.delete_at", FN(Get)(a, j) == e);
    }
#elif OP == 6
    bool r = FN(DeleteMember)(a, NEL, (val_t)val);
    VP_ASSERT("P:packed.delete_member_ret", r == (present != 0));
    for (unsigned j = 0; j + 1 < NEL; j++) {
        uint64_t e = (!present || j < lb) ? m[j] : m[j + 1];
        VP_ASSERT("P:packed.delete_member", FN(Get)(a, j) == e);
    }
    if (!present)
        for (unsigned s = 0; s < NSLOTS; s++)
            VP_ASSERT("P:packed.delete_member_absent_untouched", a[s] == before[s]);
#else
    int64_t r = FN(Member)(a, NEL, (val_t)val);
    VP_ASSERT("P:packed.member_first_or_minus1", r == (present ? (int64_t)lb : -1));
    VP_ASSERT("P:packed.binary_search_lower_bound", FN(BinarySearch)(a, NEL, (val_t)val) == lb);
    for (unsigned s = 0; s < NSLOTS; s++)
        VP_ASSERT("P:packed.query_readonly", a[s] == before[s]);
#endif
    /* bits beyond the array's elements inside the last slot are storage outside the array */
    {
        unsigned used = (OP == 3 || OP == 4) ? (NEL + 1) * BITS : NEL * BITS;
        for (unsigned s = 0; s < NSLOTS; s++) {
            slot_t keep = 0;
            for (unsigned b = 0; b < SLOTBITS; b++)
                if (s * SLOTBITS + b >= used)
                    keep |= (slot_t)((slot_t)1 << b);
            VP_ASSERT("P:packed.outside_array_bits", (a[s] & keep) == (before[s] & keep));
        }
    }
#endif
    VP_REACH();
}
