/* C12: in-place add. KIND: 0 tagged, 1 external.  GROW: 0 no-grow, 1 grow.
 * Oracle: 128-bit signed sum of (int64)stored + add. */
#include "vp.h"
#include "varintTagged.h"
#include "varintExternal.h"
#include "ref.h"

void harness(void) {
    VP_IN(uint64_t, old);
    VP_IN(int64_t, add);
    VP_IN(uint8_t, w);    /* width the value is currently stored at */
    VP_IN(uint8_t, fill);
    uint8_t buf[12], b0[12];
    for (int i = 0; i < 12; i++)
        buf[i] = fill;
    uint8_t *z = buf + 1;
#if KIND == 0
    unsigned minw = ref_tagged_len(old);
    VP_ASSUME(w <= 9 && (w == minw || (w >= 4 && w >= minw)));
    varintTaggedPut64FixedWidth(z, old, (varintWidth)w);
    const unsigned MAXW = 9;
#else
    unsigned minw = ref_bytes(old);
    VP_ASSUME(w >= minw && w <= 8);
    varintExternalPutFixedWidth(z, old, (varintWidth)w);
    const unsigned MAXW = 8;
#endif
    for (int i = 0; i < 12; i++)
        b0[i] = buf[i];
#if KIND == 0 && GROW == 0
    unsigned r = varintTaggedAddNoGrow(z, add);
#elif KIND == 0
    unsigned r = varintTaggedAddGrow(z, add);
#elif GROW == 0
    unsigned r = varintExternalAddNoGrow(z, (varintWidth)w, add);
#else
    unsigned r = varintExternalAddGrow(z, (varintWidth)w, add);
#endif
    __int128 sum = (__int128)(int64_t)old + (__int128)add;
    VP_ASSERT("P:add.guard_before", buf[0] == fill);
    if (sum > INT64_MAX || sum < INT64_MIN) {
        VP_ASSERT("P:add.overflow_reports_0", r == 0);
        for (int i = 0; i < 12; i++)
            VP_ASSERT("P:add.overflow_untouched", buf[i] == b0[i]);
    } else {
        uint64_t nv = (uint64_t)(int64_t)sum;
#if KIND == 0
        unsigned need = ref_tagged_len(nv);
#else
        unsigned need = ref_bytes(nv);
#endif
        VP_ASSERT("P:add.returns_needed_width", r == need);
        VP_ASSERT("P:add.max_width", r >= 1 && r <= MAXW);
#if GROW == 0
        for (unsigned i = 1; i < 12; i++)
            if (i >= 1u + w)
                VP_ASSERT("P:add.nogrow_never_beyond_slot", buf[i] == b0[i]);
        if (need > w) {
            for (int i = 0; i < 12; i++)
                VP_ASSERT("P:add.nogrow_unchanged_when_too_wide", buf[i] == b0[i]);
        } else
#else
        unsigned lim = need > w ? need : w;
        for (unsigned i = 1; i < 12; i++)
            if (i >= 1u + lim)
                VP_ASSERT("P:add.grow_bounded", buf[i] == b0[i]);
#endif
        {
#if KIND == 0
            uint64_t got = ~nv;
            VP_ASSERT("P:add.stored_sum", varintTaggedGet64(z, &got) == r && got == nv);
#else
            VP_ASSERT("P:add.stored_sum", varintExternalGet(z, (varintWidth)r) == nv);
#endif
        }
    }
    VP_REACH();
}
