/* C01/C04: chained (sqlite3 style) and chained-simple (LEB128 capped at 9) */
#include "vp.h"
#include "varintChained.h"
#include "varintChainedSimple.h"
#include "ref.h"

void harness(void) {
    VP_IN(uint64_t, v);
    VP_IN(uint8_t, off);
    VP_IN(uint8_t, fill);
    VP_ASSUME(off <= 1);
    uint8_t b[12], c[12], d[12], e[12], r[9], rs[9];
    for (int i = 0; i < 12; i++)
        b[i] = c[i] = d[i] = e[i] = fill;
    uint8_t *z = b + 1 + off;
    unsigned n = varintChainedPutVarint(z, v), m = ref_chained(r, v);
    VP_ASSERT("P:chained.len_range", n >= 1 && n <= 9);
    VP_ASSERT("P:chained.len_eq_ref", n == m);
    VP_ASSERT("P:chained.varintlen", varintChainedVarintLen(v) == n);
    for (unsigned i = 0; i < 9; i++)
        if (i < n)
            VP_ASSERT("P:chained.bytes_eq_ref", z[i] == r[i]);
    for (unsigned i = 0; i < 12; i++)
        if (i < 1u + off || i >= 1u + off + n)
            VP_ASSERT("P:chained.isolation", b[i] == fill);
    uint64_t out = ~v;
    VP_ASSERT("P:chained.get", varintChainedGetVarint(z, &out) == n && out == v);

    /* 32-bit entry points and macros */
    uint32_t v32 = (uint32_t)v, o32 = ~v32, o32m = ~v32;
    uint8_t *zd = d + 1 + off;
    unsigned n32 = varintChained_putVarint32(zd, v32);
    VP_ASSERT("P:chained.put32.len", n32 == varintChainedVarintLen(v32) && n32 <= 5);
    /* documented contract of the function form: "assumes the single-byte case
     * has already been handled" (the macro does that) */
    if (v32 >= 0x80)
        VP_ASSERT("P:chained.get32", varintChainedGetVarint32(zd, &o32) == n32 && o32 == v32);
    unsigned g32 = varintChained_getVarint32(zd, o32m);
    VP_ASSERT("P:chained.get32macro", g32 == n32 && o32m == v32);
    for (unsigned i = 0; i < 12; i++)
        if (i < 1u + off || i >= 1u + off + n32)
            VP_ASSERT("P:chained.put32.isolation", d[i] == fill);

    /* chained simple */
    uint8_t *zc = c + 1 + off;
    unsigned k = varintChainedSimpleEncode64(zc, v), ks = ref_chained_simple(rs, v);
    VP_ASSERT("P:csimple.len_range", k >= 1 && k <= 9);
    VP_ASSERT("P:csimple.len_eq_ref", k == ks);
    VP_ASSERT("P:csimple.length", varintChainedSimpleLength(v) == k);
    for (unsigned i = 0; i < 9; i++)
        if (i < k)
            VP_ASSERT("P:csimple.bytes_eq_ref", zc[i] == rs[i]);
    for (unsigned i = 0; i < 12; i++)
        if (i < 1u + off || i >= 1u + off + k)
            VP_ASSERT("P:csimple.isolation", c[i] == fill);
    uint64_t out2 = ~v;
    VP_ASSERT("P:csimple.decode64", varintChainedSimpleDecode64(zc, &out2) == k && out2 == v);
    uint8_t *ze = e + 1 + off;
    unsigned k32 = varintChainedSimpleEncode32(ze, v32);
    uint32_t s32 = ~v32, s32b = ~v32;
    VP_ASSERT("P:csimple.enc32.len", k32 == varintChainedSimpleLength(v32) && k32 <= 5);
    VP_ASSERT("P:csimple.dec32", varintChainedSimpleDecode32(ze, &s32) == k32 && s32 == v32);
    VP_ASSERT("P:csimple.dec32fb", varintChainedSimpleDecode32Fallback(ze, &s32b) == k32 && s32b == v32);
    for (unsigned i = 0; i < 12; i++)
        if (i < 1u + off || i >= 1u + off + k32)
            VP_ASSERT("P:csimple.enc32.isolation", e[i] == fill);
    VP_REACH();
}
