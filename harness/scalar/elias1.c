/* C04: Elias gamma / delta code of one value against the mathematical
 * definition, bit for bit, MSB-first.  CODE: 0 gamma, 1 delta.
 * Optional class split: -DLOG2=k restricts to floor(log2 v) == k. */
#include "vp.h"
#include "varintElias.h"

static unsigned rbit;
static void ref_putbit(uint8_t *o, unsigned bit) {
    if (bit)
        o[rbit / 8] |= (uint8_t)(0x80u >> (rbit % 8));
    rbit++;
}
static unsigned ref_log2(uint64_t v) {
    unsigned n = 0;
    while (n < 63 && (v >> (n + 1)) != 0)
        n++;
    return n;
}
static void ref_gamma(uint8_t *o, uint64_t v) {
    unsigned n = ref_log2(v);
    for (unsigned i = 0; i < n; i++)
        ref_putbit(o, 0);
    for (unsigned i = 0; i <= n; i++)
        ref_putbit(o, (unsigned)((v >> (n - i)) & 1));
}
static void ref_delta(uint8_t *o, uint64_t v) {
    unsigned n = ref_log2(v);
    ref_gamma(o, (uint64_t)n + 1);
    for (unsigned i = 0; i < n; i++)
        ref_putbit(o, (unsigned)((v >> (n - 1 - i)) & 1));
}

void harness(void) {
    VP_IN(uint64_t, v);
    VP_ASSUME(v >= 1);
#ifdef LOG2
    VP_ASSUME(ref_log2(v) == LOG2);
#endif
    uint8_t buf[17], ref[17];
    for (int i = 0; i < 17; i++)
        ref[i] = 0;
    varintBitWriter w;
    varintBitWriterInit(&w, buf, 16);
    buf[16] = 0x5A;
#if CODE == 0
    size_t bits = varintEliasGammaEncode(&w, v);
    ref_gamma(ref, v);
    VP_ASSERT("P:elias.gamma.bits_fn", varintEliasGammaBits(v) == bits);
    VP_ASSERT("P:elias.gamma.bits_formula", bits == 2u * ref_log2(v) + 1);
#else
    size_t bits = varintEliasDeltaEncode(&w, v);
    ref_delta(ref, v);
    VP_ASSERT("P:elias.delta.bits_fn", varintEliasDeltaBits(v) == bits);
    VP_ASSERT("P:elias.delta.bits_formula", bits == 2u * ref_log2((uint64_t)ref_log2(v) + 1) + 1 + ref_log2(v));
#endif
    VP_ASSERT("P:elias.bitcount", bits == rbit && w.bitPos == rbit);
    for (unsigned i = 0; i < 16; i++)
        VP_ASSERT("P:elias.bytes_eq_definition", buf[i] == ref[i]);
    VP_ASSERT("P:elias.guard", buf[16] == 0x5A);
    varintBitReader r;
    varintBitReaderInit(&r, buf, bits);
#if CODE == 0
    uint64_t back = varintEliasGammaDecode(&r);
#else
    uint64_t back = varintEliasDeltaDecode(&r);
#endif
    VP_ASSERT("P:elias.roundtrip", back == v && r.bitPos == bits);
    VP_REACH();
}
