/* C01/C04: external varint, little-endian (default) or -DBIG big-endian twin */
#include "vp.h"
#include "varintExternal.h"
#include "varintExternalBigEndian.h"
#include "ref.h"
#ifdef BIG
#define PUT varintExternalBigEndianPut
#define PUTFW varintExternalBigEndianPutFixedWidth
#define GET varintExternalBigEndianGet
#define PUTQ(d, v, w) varintExternalBigEndianPutFixedWidthQuick_(d, v, w)
#define GETQ(s, w, r) varintExternalBigEndianGetQuick_(s, w, r)
#define ENC(v, e) varintExternalBigEndianUnsignedEncoding(v, e)
#define BYTE(v, i, w) ((uint8_t)((v) >> (8 * ((w)-1 - (i)))))
#else
#define PUT varintExternalPut
#define PUTFW varintExternalPutFixedWidth
#define GET varintExternalGet
#define PUTQ(d, v, w) varintExternalPutFixedWidthQuick_(d, v, w)
#define GETQ(s, w, r) varintExternalGetQuick_(s, w, r)
#define ENC(v, e) varintExternalUnsignedEncoding(v, e)
#define BYTE(v, i, w) ((uint8_t)((v) >> (8 * (i))))
#endif

void harness(void) {
    VP_IN(uint64_t, v);
    VP_IN(uint8_t, off);
    VP_IN(uint8_t, fill);
    VP_IN(uint8_t, fw);
    VP_ASSUME(off <= 1);
    uint8_t buf[11];
    for (int i = 0; i < 11; i++)
        buf[i] = fill;
    uint8_t *z = buf + 1 + off;
    unsigned w = PUT(z, v);
    unsigned rw = ref_bytes(v);
    VP_ASSERT("P:ext.len_range", w >= 1 && w <= 8);
    VP_ASSERT("P:ext.len_minimal", w == rw);
    for (unsigned i = 0; i < 8; i++) {
        if (i < w)
            VP_ASSERT("P:ext.bytes", z[i] == BYTE(v, i, w));
    }
    for (unsigned i = 0; i < 11; i++) {
        if (i < 1u + off || i >= 1u + off + w)
            VP_ASSERT("P:ext.isolation", buf[i] == fill);
    }
    VP_ASSERT("P:ext.get", GET(z, (varintWidth)w) == v);
    varintWidth e;
    ENC(v, e);
    VP_ASSERT("P:ext.encoding_macro", e == w);
#ifndef BIG
    if ((int64_t)v >= 0) {
        VP_ASSERT("P:ext.signed_encoding", varintExternalSignedEncoding((int64_t)v) == w);
    }
#endif
    /* fixed width: any width >= minimal */
    VP_ASSUME(fw >= w && fw <= 8);
    uint8_t b2[11], b3[11], b4[11];
    for (int i = 0; i < 11; i++)
        b2[i] = b3[i] = b4[i] = fill;
    uint8_t *z2 = b2 + 1 + off;
    PUTFW(z2, v, (varintWidth)fw);
    for (unsigned i = 0; i < 8; i++) {
        if (i < fw)
            VP_ASSERT("P:ext.fixed.bytes", z2[i] == BYTE(v, i, fw));
    }
    for (unsigned i = 0; i < 11; i++) {
        if (i < 1u + off || i >= 1u + off + fw)
            VP_ASSERT("P:ext.fixed.isolation", b2[i] == fill);
    }
    VP_ASSERT("P:ext.fixed.get", GET(z2, (varintWidth)fw) == v);
    uint64_t q = ~v;
    GETQ(z2, fw, q);
    VP_ASSERT("P:ext.fixed.getquick", q == v);
    PUTQ(b3 + 1 + off, v, fw);
    for (unsigned i = 0; i < 11; i++)
        VP_ASSERT("P:ext.fixedquick.same", b3[i] == b2[i]);
#ifndef BIG
    varintExternalPutFixedWidthQuickMedium_(b4 + 1 + off, v, fw);
    for (unsigned i = 0; i < 11; i++)
        VP_ASSERT("P:ext.fixedquickmedium.same", b4[i] == b2[i]);
    uint64_t q2 = ~v;
    varintExternalGetQuickMedium_(z2, fw, q2);
    VP_ASSERT("P:ext.getquickmedium", q2 == v);
    VP_ASSERT("P:ext.getquickmediumrv", varintExternalGetQuickMediumReturnValue_(z2, fw) == v);
#endif
    VP_REACH();
}
