/* C04: per-length maxima (from the format comments / README "Storage
 * Overview"), canonical shortest length and length monotonicity.
 * FAM: 0 tagged 1 external 2 chained 3 chained-simple 4 split 5 split-full
 *      6 split-full-no-zero 7 split-full-16 */
#include "vp.h"
#include "varintTagged.h"
#include "varintExternal.h"
#include "varintChained.h"
#include "varintChainedSimple.h"
#include "varintSplit.h"
#include "varintSplitFull.h"
#include "varintSplitFull16.h"
#include "varintSplitFullNoZero.h"

/* documented maximum value of each encoded length 1..9 (0 = length unused) */
#define P2(k) ((k) >= 64 ? UINT64_MAX : ((1ull << (k)) - 1))
static uint64_t doc_max(unsigned len) {
#if FAM == 0
    static const uint64_t t[10] = {0, 240ull, 2287ull, 67823ull, 16777215ull, 4294967295ull, 1099511627775ull,
                                   281474976710655ull, 72057594037927935ull, UINT64_MAX};
    return t[len];
#elif FAM == 1
    return len == 9 ? 0 : P2(8 * len);
#elif FAM == 2 || FAM == 3
    return len == 9 ? UINT64_MAX : P2(7 * len);
#elif FAM == 4
    /* README: 63 / 16,701 / (81,981: header layout; README's 81,982 is a typo) / 16,793,661 / 16446 + 2^(8(len-1)) - 1 */
    if (len == 1) return 63;
    if (len == 9) return UINT64_MAX;
    return 16446ull + P2(8 * (len - 1));
#elif FAM == 5
    if (len == 1) return 63;
    if (len == 2) return 16446;
    if (len == 9) return UINT64_MAX;
    return 4210749ull + P2(8 * (len - 1)); /* 3 bytes: 4,276,284 (never-shrink rule folds the 1-byte payload in) */
#elif FAM == 6
    if (len == 1) return 64;
    if (len == 2) return 16447;
    if (len == 9) return UINT64_MAX;
    return 4210750ull + P2(8 * (len - 1)); /* README: 4,276,285 / 20,987,965 */
#else
    if (len == 1) return 0;
    if (len == 2) return 16383;
    if (len == 3) return 4210686;
    if (len == 4) return 1077952509ull;
    if (len == 9) return UINT64_MAX;
    return 1077952509ull + P2(8 * (len - 1));
#endif
}
#if FAM == 1
#define MAXLEN 8
#else
#define MAXLEN 9
#endif
#if FAM == 7
#define MINLEN 2
#else
#define MINLEN 1
#endif

static unsigned doc_len(uint64_t v) {
    for (unsigned l = MINLEN; l <= MAXLEN; l++)
        if (v <= doc_max(l))
            return l;
    return 0;
}

static unsigned lib_len(uint64_t v) {
    uint8_t l = 0;
    (void)l;
#if FAM == 0
    return varintTaggedLen(v);
#elif FAM == 1
    varintWidth e;
    varintExternalUnsignedEncoding(v, e);
    return e;
#elif FAM == 2
    return varintChainedVarintLen(v);
#elif FAM == 3
    return varintChainedSimpleLength(v);
#elif FAM == 4
    varintSplitLength_(l, v);
    return l;
#elif FAM == 5
    varintSplitFullLength_(l, v);
    return l;
#elif FAM == 6
    varintSplitFullNoZeroLength_(l, v);
    return l;
#else
    varintSplitFull16Length_(l, v);
    return l;
#endif
}

static unsigned lib_put(uint8_t *o, uint64_t v) {
    uint8_t l = 0;
    (void)l;
#if FAM == 0
    return varintTaggedPut64(o, v);
#elif FAM == 1
    return varintExternalPut(o, v);
#elif FAM == 2
    return varintChainedPutVarint(o, v);
#elif FAM == 3
    return varintChainedSimpleEncode64(o, v);
#elif FAM == 4
    varintSplitPut_(o, l, v);
    return l;
#elif FAM == 5
    varintSplitFullPut_(o, l, v);
    return l;
#elif FAM == 6
    varintSplitFullNoZeroPut_(o, l, v);
    return l;
#else
    varintSplitFull16Put_(o, l, v);
    return l;
#endif
}

void harness(void) {
    VP_IN(uint64_t, a);
    VP_IN(uint64_t, b);
#if FAM == 6
    VP_ASSUME(a != 0);
#endif
    VP_ASSUME(a < b);
    uint8_t ea[9], eb[9];
    unsigned la = lib_put(ea, a), lb = lib_put(eb, b);
    VP_ASSERT("P:len.encoder_matches_documented_table(a)", la == doc_len(a));
    VP_ASSERT("P:len.encoder_matches_documented_table(b)", lb == doc_len(b));
    VP_ASSERT("P:len.predicted_matches_documented_table", lib_len(a) == doc_len(a) && lib_len(b) == doc_len(b));
    VP_ASSERT("P:len.monotone", la <= lb);
    /* one encoding per value: distinct values never share bytes */
    if (la == lb) {
        int same = 1;
        for (unsigned i = 0; i < 9; i++)
            if (i < la && ea[i] != eb[i])
                same = 0;
        VP_ASSERT("P:len.injective", !same);
    }
    /* the published constants are the per-length maxima */
#if FAM == 0
    VP_ASSERT("P:const.tagged_max", VARINT_TAGGED_MAX_1 == doc_max(1) && VARINT_TAGGED_MAX_2 == doc_max(2) &&
                                        VARINT_TAGGED_MAX_3 == doc_max(3) && VARINT_TAGGED_MAX_4 == doc_max(4) &&
                                        VARINT_TAGGED_MAX_5 == doc_max(5) && VARINT_TAGGED_MAX_6 == doc_max(6) &&
                                        VARINT_TAGGED_MAX_7 == doc_max(7) && VARINT_TAGGED_MAX_8 == doc_max(8) &&
                                        VARINT_TAGGED_MAX_9 == doc_max(9));
#elif FAM == 5
    /* STORAGE_3 is the first-level 3-byte maximum (4,210,749); the second level extends 3 bytes to 4,276,284 */
    VP_ASSERT("P:const.splitfull_storage",
              VARINT_SPLIT_FULL_STORAGE_1 == doc_max(1) && VARINT_SPLIT_FULL_STORAGE_2 == doc_max(2) &&
                  VARINT_SPLIT_FULL_STORAGE_3 == 4210749ull && lib_len(VARINT_SPLIT_FULL_STORAGE_3) == 3 &&
                  VARINT_SPLIT_FULL_STORAGE_4 == doc_max(4) && VARINT_SPLIT_FULL_STORAGE_5 == doc_max(5) &&
                  VARINT_SPLIT_FULL_STORAGE_6 == doc_max(6) && VARINT_SPLIT_FULL_STORAGE_7 == doc_max(7) &&
                  VARINT_SPLIT_FULL_STORAGE_8 == doc_max(8) && VARINT_SPLIT_FULL_STORAGE_9 == doc_max(9));
#elif FAM == 6
    VP_ASSERT("P:const.splitfullnozero_storage",
              VARINT_SPLIT_FULL_NO_ZERO_STORAGE_1 == doc_max(1) && VARINT_SPLIT_FULL_NO_ZERO_STORAGE_2 == doc_max(2) &&
                  VARINT_SPLIT_FULL_NO_ZERO_STORAGE_3 == 4210750ull && VARINT_SPLIT_FULL_NO_ZERO_STORAGE_4 == doc_max(4) &&
                  VARINT_SPLIT_FULL_NO_ZERO_STORAGE_5 == doc_max(5) && VARINT_SPLIT_FULL_NO_ZERO_STORAGE_6 == doc_max(6) &&
                  VARINT_SPLIT_FULL_NO_ZERO_STORAGE_7 == doc_max(7) && VARINT_SPLIT_FULL_NO_ZERO_STORAGE_8 == doc_max(8) &&
                  VARINT_SPLIT_FULL_NO_ZERO_STORAGE_9 == doc_max(9));
#elif FAM == 4
    VP_ASSERT("P:const.split_max", VARINT_SPLIT_MAX_6 == 63 && VARINT_SPLIT_MAX_14 == 16446);
#endif
    VP_REACH();
}
