/* C05: tagged varints sort bytewise in numeric order; prefix-free; tuples.
 * TUPLE = number of values per key (1, 2 or 3). */
#include "vp.h"
#include "varintTagged.h"
#ifndef TUPLE
#define TUPLE 1
#endif
static int sgn(int x) { return (x > 0) - (x < 0); }
static int ref_memcmp(const uint8_t *a, const uint8_t *b, unsigned n) {
    for (unsigned i = 0; i < n; i++)
        if (a[i] != b[i])
            return a[i] < b[i] ? -1 : 1;
    return 0;
}
void harness(void) {
    VP_IN_ARR(uint64_t, a, TUPLE);
    VP_IN_ARR(uint64_t, b, TUPLE);
    uint8_t ka[9 * TUPLE], kb[9 * TUPLE];
    for (unsigned i = 0; i < 9 * TUPLE; i++)
        ka[i] = kb[i] = 0;
    unsigned la = 0, lb = 0;
    for (unsigned i = 0; i < TUPLE; i++) {
        la += varintTaggedPut64(ka + la, a[i]);
        lb += varintTaggedPut64(kb + lb, b[i]);
    }
    /* tuple order */
    int cmp = 0;
    for (unsigned i = 0; i < TUPLE; i++)
        if (cmp == 0 && a[i] != b[i])
            cmp = a[i] < b[i] ? -1 : 1;
    unsigned m = la < lb ? la : lb;
    int mc = ref_memcmp(ka, kb, m);
    /* memcmp over the common length decides whenever the keys differ: no key
     * is a proper prefix of a different key */
    VP_ASSERT("P:order.memcmp_sign", sgn(mc) == cmp);
    if (cmp == 0) {
        VP_ASSERT("P:order.equal_identical", la == lb && mc == 0);
    } else {
        VP_ASSERT("P:order.prefix_free", mc != 0);
    }
#if TUPLE == 1
    /* the library's own memcmp path (through string.h) agrees */
    VP_ASSERT("P:order.libc_memcmp", sgn(memcmp(ka, kb, m)) == cmp);
#endif
    VP_REACH();
}
