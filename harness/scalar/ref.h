/* Reference encoders written from the FORMAT TEXT (file header comments of
 * src/varintTagged.c, src/varintChained.c, src/varintChainedSimple.c,
 * src/varintSplit*.h "Data Layout", README "Storage Overview"), not from the
 * implementation.  Deliberately slow and obvious. */
#ifndef VP_REF_H
#define VP_REF_H
#include <stdint.h>

/* sqlite4 varint: 0-240 literal; 241-248 two bytes; 249 three bytes;
 * 250..255 followed by 3..8 big-endian payload bytes */
static unsigned ref_tagged(uint8_t *o, uint64_t v) {
    if (v <= 240) {
        o[0] = (uint8_t)v;
        return 1;
    }
    if (v <= 2287) {
        o[0] = (uint8_t)((v - 240) / 256 + 241);
        o[1] = (uint8_t)((v - 240) % 256);
        return 2;
    }
    if (v <= 67823) {
        o[0] = 249;
        o[1] = (uint8_t)((v - 2288) / 256);
        o[2] = (uint8_t)((v - 2288) % 256);
        return 3;
    }
    unsigned n = 3;
    while (n < 8 && (v >> (8 * n)) != 0)
        n++;
    o[0] = (uint8_t)(247 + n);
    for (unsigned i = 0; i < n; i++)
        o[1 + i] = (uint8_t)(v >> (8 * (n - 1 - i)));
    return n + 1;
}
static unsigned ref_tagged_len(uint64_t v) {
    if (v <= 240) return 1;
    if (v <= 2287) return 2;
    if (v <= 67823) return 3;
    unsigned n = 3;
    while (n < 8 && (v >> (8 * n)) != 0)
        n++;
    return n + 1;
}

/* minimal number of bytes holding v (1..8) */
static unsigned ref_bytes(uint64_t v) {
    unsigned n = 1;
    while (n < 8 && (v >> (8 * n)) != 0)
        n++;
    return n;
}

/* chained (sqlite3): big-endian 7-bit groups, high bit = continuation, and a
 * full 8-bit ninth byte when 9 bytes are needed */
static unsigned ref_chained(uint8_t *o, uint64_t v) {
    if (v >> 56) {
        o[8] = (uint8_t)v;
        v >>= 8;
        for (int i = 7; i >= 0; i--) {
            o[i] = (uint8_t)((v & 0x7f) | 0x80);
            v >>= 7;
        }
        return 9;
    }
    unsigned n = 1;
    while (n < 8 && (v >> (7 * n)) != 0)
        n++;
    for (unsigned i = 0; i < n; i++)
        o[i] = (uint8_t)(((v >> (7 * (n - 1 - i))) & 0x7f) | (i + 1 < n ? 0x80 : 0));
    return n;
}

/* chained-simple: little-endian base-128 (LEB128) capped at nine bytes: the
 * ninth byte carries a full 8 bits and no continuation flag */
static unsigned ref_chained_simple(uint8_t *o, uint64_t v) {
    unsigned n = 0;
    while (n < 8) {
        uint8_t b = (uint8_t)(v & 0x7f);
        v >>= 7;
        if (v == 0) {
            o[n++] = b;
            return n;
        }
        o[n++] = (uint8_t)(b | 0x80);
    }
    o[8] = (uint8_t)v; /* 64 - 56 = 8 bits left */
    return 9;
}
#endif
