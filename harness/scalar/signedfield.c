/* C01: signed-storage helpers moving the sign bit into a 24/40/48/56-bit field.
 * BITS = 24, 40, 48, 56.  Every signed x with |x| < 2^(BITS-1) must survive
 * prepare -> store at BITS/8 bytes -> load -> restore.  Undefined shifts are
 * part of the obligation (checks="all"). */
#include "vp.h"
#include "varintExternal.h"

void harness(void) {
#if BITS == 24
    VP_IN(int32_t, x);
    VP_ASSUME(x > -(1 << 23) && x < (1 << 23));
    int32_t v = x;
    varintPrepareSigned32to24_(v);
    VP_ASSERT("P:signed.prepared_fits", v >= 0 && v < (1 << 24));
    uint8_t b[3];
    varintExternalPutFixedWidth(b, (uint64_t)v, VARINT_WIDTH_24B);
    int32_t y = (int32_t)varintExternalGet(b, VARINT_WIDTH_24B);
    varintRestoreSigned24to32_(y);
    VP_ASSERT("P:signed.restore", y == x);
#else
    VP_IN(int64_t, x);
    VP_ASSUME(x > -(1LL << (BITS - 1)) && x < (1LL << (BITS - 1)));
    int64_t v = x;
#if BITS == 40
    varintPrepareSigned64to40_(v);
#elif BITS == 48
    varintPrepareSigned64to48_(v);
#else
    varintPrepareSigned64to56_(v);
#endif
    VP_ASSERT("P:signed.prepared_fits", v >= 0 && v < (1LL << BITS));
    uint8_t b[7];
    varintExternalPutFixedWidth(b, (uint64_t)v, (varintWidth)(BITS / 8));
    int64_t y = (int64_t)varintExternalGet(b, (varintWidth)(BITS / 8));
#if BITS == 40
    varintRestoreSigned40to64_(y);
#elif BITS == 48
    varintRestoreSigned48to64_(y);
#else
    varintRestoreSigned56to64_(y);
#endif
    VP_ASSERT("P:signed.restore", y == x);
#endif
    VP_REACH();
}
