/* C01/C04: split families. FAM: 0 split, 1 split-full, 2 split-full-no-zero,
 * 3 split-full-16.  Forward put/get/length/quick-length, reversed forms
 * (PutReversed_, PutForward_, ReversedGet_), byte-exact reference, isolation. */
#include "vp.h"
#include "varintExternal.h"
#include "varintSplit.h"
#include "varintSplitFull.h"
#include "varintSplitFull16.h"
#include "varintSplitFullNoZero.h"
#include "ref.h"

#if FAM == 0
#define PUT varintSplitPut_
#define GET varintSplitGet_
#define LEN varintSplitLength_
#define GETLEN varintSplitGetLen_
#define GETLENQ varintSplitGetLenQuick_
#define RPUTR varintSplitReversedPutReversed_
#define RPUTF varintSplitReversedPutForward_
#define RGET varintSplitReversedGet_
#define HAVE_REV 1
#define NLEV 2
#define BITS0 6
#define NOZERO 0
#define VARPFX 0x80
#define MINVAR 1
#define MINLEN 1
#elif FAM == 1
#define PUT varintSplitFullPut_
#define GET varintSplitFullGet_
#define LEN varintSplitFullLength_
#define GETLEN varintSplitFullGetLen_
#define GETLENQ varintSplitFullGetLenQuick_
#define RPUTR varintSplitFullReversedPutReversed_
#define RPUTF varintSplitFullReversedPutForward_
#define RGET varintSplitFullReversedGet_
#define HAVE_REV 1
#define NLEV 3
#define BITS0 6
#define NOZERO 0
#define VARPFX 0xC0
#define MINVAR 2
#define MINLEN 1
#elif FAM == 2
#define PUT varintSplitFullNoZeroPut_
#define GET varintSplitFullNoZeroGet_
#define LEN varintSplitFullNoZeroLength_
#define GETLEN varintSplitFullNoZeroGetLen_
#define GETLENQ varintSplitFullNoZeroGetLenQuick_
#define RPUTR varintSplitFullNoZeroReversedPutReversed_
#define RPUTF varintSplitFullNoZeroReversedPutForward_
#define RGET varintSplitFullNoZeroReversedGet_
#define HAVE_REV 1
#define NLEV 3
#define BITS0 6
#define NOZERO 1
#define VARPFX 0xC0
#define MINVAR 2
#define MINLEN 1
#else
#define PUT varintSplitFull16Put_
#define GET varintSplitFull16Get_
#define LEN varintSplitFull16Length_
#define GETLEN varintSplitFull16GetLen_
#define GETLENQ varintSplitFull16GetLenQuick_
#define HAVE_REV 0
#define NLEV 3
#define BITS0 14
#define NOZERO 0
#define VARPFX 0xC0
#define MINVAR 4
#define MINLEN 2
#endif

/* reference encoder from the "Data Layout" comments: level k (k = 0..NLEV-1)
 * has a 2-bit prefix k and BITS0+8k payload bits, big-endian, and stores
 * value - (maximum of the previous level); the last level stores 0xC0/0x80 |
 * width followed by the little-endian external varint of value - (max of last
 * embedded level), whose width never drops below MINVAR. */
static unsigned ref_split(uint8_t *o, uint64_t v) {
    uint64_t base = 0;
    for (unsigned lev = 0; lev < NLEV; lev++) {
        unsigned bits = BITS0 + 8 * lev;
        uint64_t max = (lev == 0) ? (NOZERO ? (1ull << bits) : (1ull << bits) - 1) : base + (1ull << bits) - 1;
        if (v <= max) {
            uint64_t payload = (lev == 0) ? (NOZERO ? v - 1 : v) : v - base;
            unsigned nb = (bits + 2) / 8;
            for (unsigned i = 0; i < nb; i++)
                o[i] = (uint8_t)(payload >> (8 * (nb - 1 - i)));
            o[0] = (uint8_t)((o[0] & 0x3f) | (lev << 6));
            return nb;
        }
        base = max;
    }
    uint64_t payload = v - base;
    unsigned w = ref_bytes(payload);
    if (w < MINVAR)
        w = MINVAR;
    o[0] = (uint8_t)(VARPFX | w);
    for (unsigned i = 0; i < w; i++)
        o[1 + i] = (uint8_t)(payload >> (8 * i));
    return 1 + w;
}

void harness(void) {
    VP_IN(uint64_t, v);
    VP_IN(uint8_t, off);
    VP_IN(uint8_t, fill);
    VP_ASSUME(off <= 1);
#if NOZERO
    VP_ASSUME(v != 0);
#endif
    uint8_t b[12], r[9];
    for (int i = 0; i < 12; i++)
        b[i] = fill;
    uint8_t *z = b + 1 + off;
    uint8_t len = 0, plen = 0, glen = 0, glen2 = 0;
    uint64_t out = ~v;
    PUT(z, len, v);
    LEN(plen, v);
    GET(z, glen, out);
    GETLEN(z, glen2);
    unsigned rl = ref_split(r, v);
    VP_ASSERT("P:split.len_range", len >= MINLEN && len <= 9);
    VP_ASSERT("P:split.len_eq_ref", len == rl);
    VP_ASSERT("P:split.len_predicted", plen == len);
    VP_ASSERT("P:split.len_decoder", glen == len);
    VP_ASSERT("P:split.getlen", glen2 == len);
    VP_ASSERT("P:split.getlenquick", GETLENQ(z) == len);
    VP_ASSERT("P:split.roundtrip", out == v);
    for (unsigned i = 0; i < 9; i++)
        if (i < len)
            VP_ASSERT("P:split.bytes_eq_ref", z[i] == r[i]);
    for (unsigned i = 0; i < 12; i++)
        if (i < 1u + off || i >= 1u + off + len)
            VP_ASSERT("P:split.isolation", b[i] == fill);
#if HAVE_REV
    /* reversed: type byte last; PutReversed_ is handed the LAST byte, PutForward_ the first */
    uint8_t c[12], d[12];
    for (int i = 0; i < 12; i++)
        c[i] = d[i] = fill;
    uint8_t rlen = 0, flen = 0, g1 = 0, g2 = 0;
    uint64_t o1 = ~v, o2 = ~v;
    uint8_t *last = c + 9 + off;
    RPUTR(last, rlen, v);
    VP_ASSERT("P:split.rev.len", rlen == len);
    RGET(last, g1, o1);
    VP_ASSERT("P:split.rev.roundtrip", g1 == len && o1 == v);
    for (unsigned i = 0; i < 12; i++)
        if (i > 9u + off || i + len <= 9u + off)
            VP_ASSERT("P:split.rev.isolation", c[i] == fill);
    uint8_t *first = d + 1 + off;
    RPUTF(first, flen, v);
    VP_ASSERT("P:split.fwd.len", flen == len);
    RGET(first + flen - 1, g2, o2);
    VP_ASSERT("P:split.fwd.roundtrip", g2 == len && o2 == v);
    for (unsigned i = 0; i < 12; i++)
        if (i < 1u + off || i >= 1u + off + len)
            VP_ASSERT("P:split.fwd.isolation", d[i] == fill);
    /* both reversed writers produce the same bytes: the mirror of nothing, the
     * same little-endian body with the type byte at the end */
    for (unsigned i = 0; i < 9; i++)
        if (i < len)
            VP_ASSERT("P:split.rev_eq_fwd", first[i] == (last - (len - 1))[i]);
#endif
    VP_REACH();
}
