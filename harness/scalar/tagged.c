/* C01/C04: tagged varint — round trip, four agreeing lengths, isolation,
 * byte-exact against the reference encoder, fixed width, 32-bit entry points,
 * quick macros. */
#include "vp.h"
#include "varintTagged.h"
#include "ref.h"
varintWidth varintTaggedGetVarint32(const uint8_t *z, uint32_t *pResult);
varintWidth varintTaggedPutVarint32(uint8_t *p, uint32_t v);

void harness(void) {
    VP_IN(uint64_t, v);
    VP_IN(uint8_t, off);  /* buffer alignment */
    VP_IN(uint8_t, fill); /* prior contents */
    VP_IN(uint8_t, fw);   /* fixed width */
    VP_ASSUME(off <= 1);
    uint8_t buf[12], ref[9];
    for (int i = 0; i < 12; i++)
        buf[i] = fill;
    uint8_t *z = buf + 1 + off;
    unsigned n = varintTaggedPut64(z, v);
    unsigned r = ref_tagged(ref, v);
    VP_ASSERT("P:tagged.len_range", n >= 1 && n <= 9);
    VP_ASSERT("P:tagged.len_eq_ref", n == r);
    for (unsigned i = 0; i < 9; i++) {
        if (i < n)
            VP_ASSERT("P:tagged.bytes_eq_ref", z[i] == ref[i]);
    }
    for (unsigned i = 0; i < 12; i++) {
        if (i < 1u + off || i >= 1u + off + n)
            VP_ASSERT("P:tagged.isolation", buf[i] == fill);
    }
    uint64_t out = ~v;
    unsigned g = varintTaggedGet64(z, &out);
    VP_ASSERT("P:tagged.get64", g == n && out == v);
    uint64_t out2 = ~v;
    VP_ASSERT("P:tagged.get_exact_n", varintTaggedGet(z, (int32_t)n, &out2) == n && out2 == v);
    VP_ASSERT("P:tagged.len", varintTaggedLen(v) == n);
    VP_ASSERT("P:tagged.getlen", varintTaggedGetLen(z) == n);
    VP_ASSERT("P:tagged.lenquick", varintTaggedLenQuick(v) == n);
    VP_ASSERT("P:tagged.getlenquick", varintTaggedGetLenQuick_(z) == n);
    VP_ASSERT("P:tagged.get64quick", varintTaggedGet64Quick_(z) == v);
    VP_ASSERT("P:tagged.get64rv", varintTaggedGet64ReturnValue(z) == v);

    /* fixed width: the minimal width, or any payload format (4..9) >= minimal */
    VP_ASSUME(fw >= 1 && fw <= 9 && (fw == n || (fw >= 4 && fw >= n)));
    uint8_t b2[12];
    for (int i = 0; i < 12; i++)
        b2[i] = fill;
    uint8_t *z2 = b2 + 1 + off;
    unsigned f = varintTaggedPut64FixedWidth(z2, v, (varintWidth)fw);
    VP_ASSERT("P:tagged.fixed.ret", f == fw);
    uint64_t o3 = ~v;
    VP_ASSERT("P:tagged.fixed.get", varintTaggedGet64(z2, &o3) == fw && o3 == v);
    VP_ASSERT("P:tagged.fixed.getlen", varintTaggedGetLen(z2) == fw);
    for (unsigned i = 0; i < 12; i++) {
        if (i < 1u + off || i >= 1u + off + fw)
            VP_ASSERT("P:tagged.fixed.isolation", b2[i] == fill);
    }
    if (fw == n) {
        for (unsigned i = 0; i < 9; i++)
            if (i < n)
                VP_ASSERT("P:tagged.fixed.same_bytes", z2[i] == z[i]);
    }
    /* quick fixed-width macro */
    uint8_t b3[12];
    for (int i = 0; i < 12; i++)
        b3[i] = fill;
    uint8_t *z3 = b3 + 1 + off;
    varintTaggedPut64FixedWidthQuick_(z3, v, fw);
    for (unsigned i = 0; i < 12; i++)
        VP_ASSERT("P:tagged.fixedquick.same", b3[i] == b2[i]);

    /* 32-bit entry points */
    uint32_t v32 = (uint32_t)v;
    uint8_t b4[12];
    for (int i = 0; i < 12; i++)
        b4[i] = fill;
    unsigned n32 = varintTaggedPutVarint32(b4 + 1 + off, v32);
    VP_ASSERT("P:tagged.put32.len", n32 == ref_tagged_len(v32) && n32 <= 5);
    uint32_t o32 = ~v32;
    VP_ASSERT("P:tagged.get32", varintTaggedGetVarint32(b4 + 1 + off, &o32) == n32 && o32 == v32);
    for (unsigned i = 0; i < 12; i++) {
        if (i < 1u + off || i >= 1u + off + n32)
            VP_ASSERT("P:tagged.put32.isolation", b4[i] == fill);
    }
    VP_REACH();
}
