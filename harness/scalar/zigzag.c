/* C04: zig-zag map follows its mathematical definition:
 *   n >= 0 -> 2n ; n < 0 -> -2n - 1   (0,-1,1,-2,2 ... -> 0,1,2,3,4 ...)
 * and decode inverts it; varintDeltaPut/Get store it as width byte + minimal LE */
#include "vp.h"
#include "varintDelta.h"
#include "ref.h"

void harness(void) {
    VP_IN(int64_t, n);
    VP_IN(uint8_t, fill);
    uint64_t z = varintDeltaZigZag(n);
    /* mathematical definition evaluated in 128-bit arithmetic */
    __int128 m = n >= 0 ? (__int128)2 * n : (__int128)-2 * n - 1;
    VP_ASSERT("P:zigzag.definition", (__int128)z == m);
    VP_ASSERT("P:zigzag.inverse", varintDeltaZigZagDecode(z) == n);
    uint8_t b[12];
    for (int i = 0; i < 12; i++)
        b[i] = fill;
    unsigned w = varintDeltaPut(b + 1, n);
    unsigned rb = ref_bytes(z);
    VP_ASSERT("P:delta.put.len", w == 1 + rb);
    VP_ASSERT("P:delta.put.widthbyte", b[1] == rb);
    for (unsigned i = 0; i < 8; i++)
        if (i < rb)
            VP_ASSERT("P:delta.put.bytes", b[2 + i] == (uint8_t)(z >> (8 * i)));
    for (unsigned i = 0; i < 12; i++)
        if (i < 1 || i >= 1 + w)
            VP_ASSERT("P:delta.put.isolation", b[i] == fill);
    int64_t back = ~n;
    VP_ASSERT("P:delta.get", varintDeltaGet(b + 1, &back) == w && back == n);
    VP_REACH();
}
