#!/bin/sh
# Build /repo's current working tree with the verification guard OFF (nothing
# defines MATTSTA_VARINT_VERIF) in a scratch directory and run the pinned ctest
# suite (13 tests).  The scratch build is removed afterwards.
set -e
B=$(mktemp -d /tmp/vp-baseline.XXXXXX)
trap 'rm -rf "$B"' EXIT
cmake -G Ninja -S /repo -B "$B" -DCMAKE_BUILD_TYPE=RelWithDebInfo -DCMAKE_C_FLAGS=-Wno-error >"$B.log" 2>&1 || { cat "$B.log"; rm -f "$B.log"; exit 1; }
cmake --build "$B" >>"$B.log" 2>&1 || { tail -50 "$B.log"; rm -f "$B.log"; exit 1; }
rm -f "$B.log"
ctest --test-dir "$B" -j8 --timeout 900
