#!/bin/sh
# usage: evalmut.sh <ID> <patch> [tier] [only-regex]   -> applies the patch in /tmp/mut/eval, runs the check against it, restores
ID=$1; PATCH=$2; TIER=${3:-quick}; ONLY=${4:-.}
git -C /tmp/mut/eval checkout -q -- . && git -C /tmp/mut/eval apply "$PATCH" || { echo "APPLY FAILED $PATCH"; exit 9; }
VP_REPO=/tmp/mut/eval /verif/vcheck run $ID --tier $TIER --only "$ONLY" --quiet > /tmp/mut/eval_$ID.$TIER.log 2>&1
rc=$?
git -C /tmp/mut/eval checkout -q -- .
echo "$ID $TIER rc=$rc $(grep -c '^VIOLATION' /tmp/mut/eval_$ID.$TIER.log) violations, $(grep -c '^INCONCLUSIVE' /tmp/mut/eval_$ID.$TIER.log) inconclusive; $(tail -n 1 /tmp/mut/eval_$ID.$TIER.log | cut -c1-150)"
