#!/bin/sh
# usage: evalmut.sh <ID> <patch> [tier] [only-regex]
# Applies a seeded change in a scratch worktree of /repo (never in /repo itself), runs the property's check against it
# (VP_REPO), prints the outcome and removes the worktree.  --only keeps the evidence file of the real tree untouched.
ID=$1; PATCH=$(readlink -f "$2"); TIER=${3:-quick}; ONLY=${4:-.}
WT=$(mktemp -d /tmp/vp-evalmut.XXXXXX); rmdir "$WT"
git -C /repo worktree add -q "$WT" HEAD || exit 9
trap 'git -C /repo worktree remove --force "$WT" >/dev/null 2>&1' EXIT
git -C "$WT" apply "$PATCH" || { echo "APPLY FAILED $PATCH"; exit 9; }
LOG=$(mktemp /tmp/vp-evalmut-log.XXXXXX)
VP_REPO="$WT" /verif/vcheck run "$ID" --tier "$TIER" --only "$ONLY" --quiet > "$LOG" 2>&1
rc=$?
echo "$ID $TIER rc=$rc $(grep -c '^VIOLATION' "$LOG") violations, $(grep -c '^INCONCLUSIVE' "$LOG") inconclusive; $(tail -n 1 "$LOG" | cut -c1-150)"
grep '^VIOLATION' "$LOG" | head -3 | cut -c1-300
rm -f "$LOG"
exit $rc
