#!/usr/bin/env python3
"""Regenerates /verif/MANIFEST.json from the table below (kept in one place so
the manifest stays schema-valid while properties are added)."""
import json, os, subprocess, sys
VERIF = os.path.dirname(os.path.dirname(os.path.abspath(__file__)))

LEVEL_NOTE = ("Trusted base: CBMC 6.11.0 (C front end, symbolic execution, bit-blasting, MiniSat2), the environment stubs in "
              "harness/common (byte-loop mem*, insertion-sort qsort calling the real comparator, exact-size dispatch allocator), the "
              "harness oracles, gcc/ASan/UBSan for the native replay of every counterexample. Bounds are those listed in the "
              "evidence file ('bounds', 'outside_bounds'); --unwinding-assertions is on for every query, so a loop bound that is too "
              "small is reported as inconclusive (exit 2), never as success.")

CHECKS = {
    "C02": ("Bounded model checking of every integer-array codec's real encoder followed by its real decoder(s), random-access and "
            "block readers on n <= 4 jointly symbolic full-width elements, split into exhaustive width classes; the decoder is fed the "
            "reported bytes followed by unrelated symbolic junk. BP128 additionally at a scaled block size (hook) to cross the "
            "full/partial block transitions.", "3 C02"),
    "C03": ("Bounded model checking of encoder output size against the matching sizing function: destination object of exactly the "
            "advertised size (CBMC bounds check) or symbolic prior contents that must survive at and beyond the advertised size; "
            "returned length <= (== where documented exact) the advertised size.", "3 C03"),
    "C06": ("Bounded model checking of the adaptive codec decomposed along varintAdaptiveEncode's body: selection-vs-domain over "
            "arbitrary statistics (no array bound), Analyze truthfulness, forced and automatically selected encodings round trip with "
            "header byte == reported type, n <= 3.", "3 C06"),
    "C08": ("Bounded model checking of the bitmap as one inductive step from every well-formed container shape (scaled constants via the "
            "hook, plus real constants on small shapes): abstract set equality, truthful return values, operands unchanged, "
            "well-formedness preserved; loops over other public operations verified modularly against contracts that the one-step "
            "queries prove (goto-instrument --replace-calls).", "3 C08"),
    "C13": ("Bounded model checking of every capacity-taking decoder on valid encodings of n symbolic elements with an output object of "
            "exactly cap < n elements (a write past capacity is a bounds failure); result 0 or a correct prefix as documented.", "3 C13"),
    "C14": ("Bounded model checking of every length-taking decoder on an input object of exactly L bytes with arbitrary symbolic "
            "contents (L = 0..12, Elias 0..3): no access at or beyond L, termination via unwinding assertions, bounded allocation, "
            "output capacity respected, truncated tagged varint => 0; valid encodings still decode.", "3 C14"),
    "C15": ("Self-composition in CBMC: each entry point executed twice on equal arguments with independent symbolic residue in output "
            "buffers, metadata structs, uninitialised locals and fresh heap objects; outputs must be equal. Plus an audit of the goto "
            "symbol table: no mutable static-lifetime object.", "3 C15"),
    "C16": ("Bounded model checking of metadata outputs and header accessors against ground truth computed by the harness from the "
            "symbolic input and the encoder's return value (same arrays as C02).", "3 C16"),
    "C17": ("CBMC's multi-threaded semantics: two threads, all interleavings, on the scalar families, packed arrays and bitstreams over "
            "disjoint outputs and shared inputs, results equal to the sequential ones; plus a symbol-table audit of all units (no "
            "mutable static state, no synchronisation primitives) that carries the claim to the array codecs and more threads.", "3 C17"),
    "C18": ("Bounded model checking with allocation-failure injection: the k-th allocation of each allocating call fails for a symbolic "
            "k covering every position (an assertion bounds the number of allocations): no memory error, no leak, failure value or a "
            "fully correct result, long-lived objects usable afterwards.", "3 C18"),
    "C01": ("Bounded symbolic model checking of the real scalar encoders/decoders (functions and macros) with CBMC: every harness "
            "quantifies over all 2^64 values, all legal widths, prior buffer contents and two alignments, in both NDEBUG "
            "configurations; for these loop-free-after-unwinding functions the bound is the machine width itself.", "3 C01"),
    "C04": ("Differential bounded model checking: the real encoders against reference encoders written from the format comments, "
            "byte for byte over all 2^64 values; per-length maxima, injectivity and length monotonicity over all pairs.", "3 C04"),
    "C05": ("Bounded model checking over all pairs of 64-bit values and all pairs of 2- and 3-tuples: sign(memcmp) == sign(tuple "
            "compare), equal values identical bytes, prefix-freeness.", "3 C05"),
    "C07": ("Bounded model checking of varintFloatEncode/Decode/EncodeAuto/Decompose/Compose on symbolic IEEE-754 bit patterns with an "
            "exact integer-arithmetic oracle (bit equality in FULL, |out-in| <= |in| 2^-k otherwise, specials exact), all 4 precisions x 3 "
            "exponent modes, arrays of 1-2 (quick) and up to 4 (thorough) fully symbolic doubles.", "3 C07"),
    "C09": ("Bounded model checking of every generated packed-array instantiation (bit widths 1..32 x slot types x default/compact/"
            "micro-promotion, filtered by the two-slot rule): Set/Get/SetIncr/SetHalf bit-level isolation and access footprint on "
            "exact-size storage with symbolic index, value and contents; sorted insert/delete/member/search as one inductive step "
            "against a reference sorted multiset.", "3 C09"),
    "C10": ("Bounded model checking of the dimension pack/unpack and pair header over all (rows, cols), and of one cell write "
            "(bit/unsigned 1-8 bytes/float/double) in small matrices behind headers of every width pair with symbolic coordinates and "
            "prior contents: read-back, byte-level isolation of every other cell and of the header.", "3 C10"),
    "C11": ("Bounded model checking of varintBitstreamSet/Get for both documented word types over every offset, width, value and "
            "prior content of a 3-word stream held in an exact-size object (footprint), bit-level isolation and layout oracle.", "3 C11"),
    "C12": ("Bounded model checking of the four in-place add entry points over all (stored value, width, amount) with a 128-bit "
            "signed-sum oracle and byte-level slot isolation.", "3 C12"),
}

TECH = "bounded symbolic model checking of the real C translation units (CBMC 6.11, SAT), counterexamples replayed natively under ASan/UBSan"

ALL = ["C%02d" % i for i in range(1, 19)]


def main():
    checks = []
    for pid in ALL:
        if pid not in CHECKS:
            continue
        text, ref = CHECKS[pid]
        checks.append({
            "property_id": pid,
            "quick_cmd": "./vcheck run %s --tier quick" % pid,
            "thorough_cmd": "./vcheck run %s --tier thorough" % pid,
            "evidence_file": "/verif/evidence/%s.json" % pid,
            "replay_cmd_template": "./vcheck replay {path}",
            "engine": "cbmc",
            "level_claimed": {"category": "model_checking", "text": text, "design_ref": "DESIGN.md section " + ref},
            "level_note": LEVEL_NOTE,
            "technique": TECH,
        })
    hooks_commits = []
    try:
        out = subprocess.run(["git", "-C", "/repo", "log", "--format=%H %s"], capture_output=True, text=True).stdout
        for line in out.splitlines():
            h, s = line.split(" ", 1)
            if s.startswith("verif-hook:"):
                hooks_commits.append(h)
    except Exception:
        pass
    na = [{"property_id": p, "reason": NA.get(p, "check not built yet in this revision of /verif (work in progress; see DESIGN.md section 3)")}
          for p in ALL if p not in CHECKS]
    m = {
        "version": 1,
        "setup_cmd": "./vcheck setup",
        "hooks": {
            "guard": "MATTSTA_VARINT_VERIF",
            "enable": "checks pass -DMATTSTA_VARINT_VERIF (plus VARINT_VERIF_* scaling constants) to cbmc/gcc when compiling /repo/src",
            "baseline_off_cmd": "/verif/scripts/baseline.sh",
            "source_commits": hooks_commits,
            "add_only": True,
        },
        "engines": [{"name": "cbmc", "path": "/verif/vcheck", "serves_properties": [c["property_id"] for c in checks],
                     "kind_free_text": "CBMC 6.11.0 bounded model checker driven by /verif/vcheck (python3 stdlib): harness x parameter "
                                       "grid -> one SAT query each, --unwinding-assertions, native replay of counterexamples"}],
        "checks": checks,
        "notes": "Exit codes of every command: 0 held on everything explored; 1 + 'VIOLATION property=<id> replay=<path>' for a "
                 "solver counterexample (replayed natively); 2 inconclusive (timeout, memory, unwinding bound too small) - never "
                 "reported as held. Known findings: /verif/known-findings.json.",
        "not_applicable": na,
    }
    with open(os.path.join(VERIF, "MANIFEST.json"), "w") as f:
        json.dump(m, f, indent=1)
    print("MANIFEST.json: %d checks, %d not_applicable" % (len(checks), len(na)))


NA = {}
if __name__ == "__main__":
    main()
