"""vcheck core: query description, CBMC runner, result parsing, native replay,
known findings, evidence.  Python 3 stdlib only."""
import json, os, re, resource, shutil, signal, subprocess, sys, tempfile, time, hashlib
from concurrent.futures import ThreadPoolExecutor, as_completed

VERIF = os.path.dirname(os.path.dirname(os.path.abspath(__file__)))
REPO = os.environ.get("VP_REPO", "/repo")
SRC = os.path.join(REPO, "src")
COMMON = os.path.join(VERIF, "harness", "common")
GUARD = "MATTSTA_VARINT_VERIF"
NCPU = int(os.environ.get("VP_JOBS", str(os.cpu_count() or 8)))

BASE_FLAGS = [
    "--function", "harness", "--unwinding-assertions", "--drop-unused-functions",
    "--no-malloc-may-fail", "--json-ui", "--verbosity", "8",
]

# CBMC property classes that are *deciding* for memory-safety style oracles
MEM_CLASSES = ("pointer_dereference", "array_bounds", "pointer_arithmetic", "pointer", "pointer_primitives",
               "precondition_instance", "bounds")
UB_CLASSES = ("overflow", "undefined-shift", "division-by-zero", "shift")


class Query:
    """One cbmc process = harness x parameter point."""

    def __init__(self, name, harness, units=(), defs=None, unwind=13, unwindset=None, stubs=("mem",),
                 timeout=300, mem_gb=12, checks="mem", ndebug=True, kf=(), expect_fail=(), note="",
                 object_bits=12, extra=(), native_units=None, weight=1, replace_calls=None, unwind_fn=None, empty_ok=False):
        self.name = name
        self.harness = harness                    # path relative to /verif/harness
        self.units = list(units)                  # file names under /repo/src
        self.defs = dict(defs or {})
        self.unwind = unwind
        self.unwindset = dict(unwindset or {})
        self.stubs = list(stubs)                  # subset of mem, qsort
        self.timeout = timeout
        self.mem_gb = mem_gb
        self.checks = checks                      # "mem": default checks; "all": + overflow etc; "none": harness assertions only
        self.ndebug = ndebug
        self.kf = list(kf)                        # known-finding ids whose region this query meets
        self.expect_fail = list(expect_fail)
        self.note = note
        self.object_bits = object_bits
        self.extra = list(extra)
        self.native_units = native_units
        self.weight = weight
        self.empty_ok = empty_ok                  # the class this query assumes may be empty (then that emptiness is the verdict)
        self.unwind_fn = dict(unwind_fn or {})    # {function name or prefix*: bound} resolved to loop ids via --show-loops
        self._resolved = False
        # optional modular verification: {callee: contract_fn}; the sources are compiled with goto-cc, calls to callee are
        # redirected with goto-instrument --replace-calls, and cbmc runs on the resulting goto binary with the same flags
        self.replace_calls = dict(replace_calls or {})

    def clone(self, **kw):
        q = Query(self.name, self.harness)
        q.__dict__.update({k: (v.copy() if isinstance(v, (list, dict)) else v) for k, v in self.__dict__.items()})
        for k, v in kw.items():
            setattr(q, k, v)
        return q

    # ---------------------------------------------------------------- commands
    def dflags(self, native=False):
        d = ["-I", SRC, "-I", COMMON, "-D__BEGIN_DECLS=", "-D__END_DECLS=", "-D" + GUARD]
        if self.ndebug:
            d.append("-DNDEBUG")
        for k, v in self.defs.items():
            d.append("-D%s=%s" % (k, v) if v is not None and v != "" else "-D%s" % k)
        return d

    def files(self):
        fs = [os.path.join(VERIF, "harness", self.harness), os.path.join(COMMON, "vp_rt_cbmc.c")]
        for s in self.stubs:
            fs.append(os.path.join(COMMON, "stub_%s.c" % s))
        fs += [os.path.join(SRC, u) for u in self.units]
        return fs

    def resolve_loops(self):
        """expand unwind_fn into unwindset entries using cbmc --show-loops (cheap: front end only).
        unwind_fn: {function name or prefix*: bound | [[regex on the loop head's source line, bound], ...]}"""
        if self._resolved or not self.unwind_fn:
            return
        self._resolved = True
        cmd = ["cbmc"] + self.dflags() + self.files() + ["--show-loops"]
        rc, out, err, _, to = run_proc(cmd, 120, 8)
        cache = {}
        for m in re.finditer(r"^Loop ([A-Za-z_][A-Za-z0-9_$]*)\.(\d+):\n\s+file (\S+) line (\d+)", out, re.M):
            fn, idx, fname, line = m.group(1), m.group(2), m.group(3), int(m.group(4))
            for key, k in self.unwind_fn.items():
                if fn == key or (key.endswith("*") and fn.startswith(key[:-1])):
                    if isinstance(k, int):
                        self.unwindset.setdefault("%s.%s" % (fn, idx), k)
                    else:
                        if fname not in cache:
                            try:
                                cache[fname] = open(fname).read().splitlines()
                            except Exception:
                                cache[fname] = []
                        src = cache[fname]
                        text = " ".join(src[max(0, line - 1):line + 1])
                        for rx, b in k:
                            if re.search(rx, text):
                                self.unwindset.setdefault("%s.%s" % (fn, idx), b)
                                break
                    break

    def cbmc_cmd(self, extra=(), gb=None):
        self.resolve_loops()
        cmd = ["cbmc"] + (self.dflags() + self.files() if gb is None else [gb]) + BASE_FLAGS + [
            "--object-bits", str(self.object_bits), "--unwind", str(self.unwind)]
        if self.unwindset:
            cmd += ["--unwindset", ",".join("%s:%d" % kv for kv in self.unwindset.items())]
        if self.checks == "none":
            cmd += ["--no-standard-checks"]
        elif self.checks == "mem":
            cmd += ["--no-signed-overflow-check", "--no-undefined-shift-check", "--no-div-by-zero-check"]
        elif self.checks == "bounds":
            # array-bounds checks only: used where the code under test forms an out-of-object pointer by design
            # (varintAdaptiveDecode hands its dict/bitmap decoders a fixed 1 MiB length), after which CBMC reports every
            # later property as UNKNOWN
            cmd += ["--no-pointer-check", "--no-pointer-primitive-check", "--no-signed-overflow-check", "--no-undefined-shift-check",
                    "--no-div-by-zero-check"]
        elif self.checks == "all":
            pass
        cmd += self.extra
        cmd += list(extra)
        return cmd


class PyQuery:
    """A driver-side obligation decided by a python callable (e.g. a symbol-table audit of the goto program).
    fn() -> dict(verdict='held'|'violated'|'inconclusive', why=str, failed=[...], n_props=int, n_ok=int)"""

    def __init__(self, name, fn, weight=1, note=""):
        self.name = name; self.fn = fn; self.weight = weight; self.kf = []; self.harness = "(driver)"; self.units = []
        self.defs = {}; self.note = note

    def clone(self, **kw):
        return self


def static_objects(units, defs=()):
    """static-lifetime objects of the library units, from the goto symbol table (cbmc --show-symbol-table --json-ui).
    Returns (objects, error): objects = [(name, is_const, file)]"""
    cmd = ["cbmc", "-I", SRC, "-D__BEGIN_DECLS=", "-D__END_DECLS=", "-D" + GUARD, "-DNDEBUG"] + list(defs) + \
          [os.path.join(SRC, u) for u in units] + ["--show-symbol-table", "--json-ui"]
    rc, out, err, _, to = run_proc(cmd, 300, 8)
    try:
        data = json.loads(out)
    except Exception as e:
        return None, "unparsable symbol table: %s" % e
    objs = []
    for e in data:
        if isinstance(e, dict) and "symbolTable" in e:
            for name, sym in e["symbolTable"].items():
                if not sym.get("isStaticLifetime") or sym.get("isType") or sym.get("isMacro"):
                    continue
                t = sym.get("type", {})
                if t.get("id") == "code":
                    continue
                loc = sym.get("location", {}).get("file", "")
                if not loc.startswith(SRC):
                    continue
                if name.startswith("__CPROVER"):
                    continue
                pt = sym.get("prettyType", "")
                const = "#constant" in t.get("namedSub", {}) or pt.startswith("const ")
                objs.append((name, bool(const), loc, pt))
    return objs, None


def external_calls(units):
    """names of functions called from the compiled library units that have no body there (libc / environment),
    taken from the goto program (cbmc --show-goto-functions): regenerated from source on every run."""
    cmd = ["cbmc", "-I", SRC, "-D__BEGIN_DECLS=", "-D__END_DECLS=", "-D" + GUARD, "-DNDEBUG"] + [os.path.join(SRC, u) for u in units] + \
          ["--function", "varintTaggedLen", "--show-goto-functions"]
    rc, out, err, _, to = run_proc(cmd, 300, 8)
    defined = set(re.findall(r"^([A-Za-z_][A-Za-z0-9_]*) /\* ", out, re.M))
    called = set(re.findall(r"CALL (?:[^\n]*? := )?([A-Za-z_][A-Za-z0-9_]*)\(", out))
    if not defined:
        return None, "no goto functions listed"
    return sorted(c for c in called if c not in defined and not c.startswith("__CPROVER")), None


def _limit(mem_gb):
    def f():
        os.setsid()
        b = int(mem_gb * (1 << 30))
        resource.setrlimit(resource.RLIMIT_AS, (b, b))
    return f


def run_proc(cmd, timeout, mem_gb=12, env=None, cwd=None):
    t0 = time.time()
    p = subprocess.Popen(cmd, stdout=subprocess.PIPE, stderr=subprocess.PIPE, preexec_fn=_limit(mem_gb), env=env, cwd=cwd)
    try:
        out, err = p.communicate(timeout=timeout)
        to = False
    except subprocess.TimeoutExpired:
        try:
            os.killpg(p.pid, signal.SIGKILL)
        except Exception:
            pass
        out, err = p.communicate()
        to = True
    ru = resource.getrusage(resource.RUSAGE_CHILDREN)
    return p.returncode, out.decode("utf-8", "replace"), err.decode("utf-8", "replace"), time.time() - t0, to


def build_modular(q, outdir):
    """goto-cc all files of q, then goto-instrument --replace-calls callee:contract for q.replace_calls.
    Returns (goto binary path or None, list of command strings, error text)."""
    a = os.path.join(outdir, "a.gb")
    cmds = [["goto-cc"] + q.dflags() + q.files() + ["-o", a]]
    cur = a
    for i, (callee, contract) in enumerate(sorted(q.replace_calls.items())):
        nxt = os.path.join(outdir, "r%d.gb" % i)
        cmds.append(["goto-instrument", "--replace-calls", "%s:%s" % (callee, contract), cur, nxt])
        cur = nxt
    for c in cmds:
        rc, out, err, _, to = run_proc(c, 180, 8)
        if to or rc != 0:
            return None, cmds, "%s failed rc=%s %s" % (c[0], rc, (err or out)[-600:])
    return cur, cmds, ""


def classify(prop_id, desc):
    """-> 'reach' | 'assert' | 'unwind' | 'mem' | 'ub' | 'other'"""
    if desc.startswith("VP_REACH"):
        return "reach"
    parts = prop_id.split(".")
    cls = parts[-2] if len(parts) >= 2 else ""
    if cls == "assertion":
        if desc.startswith("P:") or desc.startswith("KF:"):
            return "assert"
        return "libassert"       # an assert() inside the library (non-NDEBUG config)
    if cls in ("unwind", "recursion"):
        return "unwind"
    if desc.startswith("pointer relation:") or cls == "pointer_arithmetic":
        # comparing / forming a pointer outside its object without dereferencing it (standard-level UB that no
        # sanitizer observes, e.g. end = buffer + declared_length): recorded as an advisory, never decides a check
        return "advisory"
    if cls in MEM_CLASSES:
        return "mem"
    if cls in UB_CLASSES:
        return "ub"
    return "other"


def parse_cbmc(out):
    """Parse --json-ui output.  Returns dict(status, props=[(id, desc, status, class, trace?)], stats)."""
    res = {"status": "error", "props": [], "stats": {}, "messages": []}
    try:
        data = json.loads(out)
    except Exception as e:
        # truncated JSON (killed): try to salvage nothing
        res["error"] = "unparsable json: %s" % e
        return res
    stats = res["stats"]
    for e in data:
        if not isinstance(e, dict):
            continue
        if "messageText" in e:
            t = e["messageText"]
            if e.get("messageType") == "ERROR":
                res["messages"].append(t)
            m = re.search(r"size of program expression: (\d+) steps", t)
            if m:
                stats["steps"] = int(m.group(1))
            m = re.search(r"Generated (\d+) VCC\(s\), (\d+) remaining", t)
            if m:
                stats["vccs"] = int(m.group(1)); stats["vccs_remaining"] = int(m.group(2))
            m = re.search(r"(\d+) variables, (\d+) clauses", t)
            if m:
                stats["variables"] = max(stats.get("variables", 0), int(m.group(1)))
                stats["clauses"] = max(stats.get("clauses", 0), int(m.group(2)))
            m = re.search(r"Runtime Solver: ([0-9.e+-]+)s", t)
            if m:
                stats["solver_s"] = stats.get("solver_s", 0.0) + float(m.group(1))
            m = re.search(r"Runtime Symex: ([0-9.e+-]+)s", t)
            if m:
                stats["symex_s"] = float(m.group(1))
        if "result" in e:
            for r in e["result"]:
                pid = r.get("property", ""); desc = r.get("description", "")
                res["props"].append({"id": pid, "desc": desc, "status": r.get("status"),
                                     "class": classify(pid, desc), "trace": r.get("trace"),
                                     "loc": r.get("sourceLocation", {})})
        if "cProverStatus" in e:
            res["status"] = e["cProverStatus"]
    return res


_IN_RE = re.compile(r"VP_IN(_ARR)?\s*\(\s*([A-Za-z_][A-Za-z0-9_ ]*?)\s*,\s*([A-Za-z_][A-Za-z0-9_]*)")


def harness_inputs(path):
    txt = open(path).read()
    return [(m.group(3), bool(m.group(1)), m.group(2)) for m in _IN_RE.finditer(txt)]


def _val_to_int(v):
    if v is None:
        return None
    if "binary" in v:
        try:
            return int(v["binary"], 2)
        except Exception:
            pass
    d = v.get("data")
    if isinstance(d, str):
        s = d.rstrip("uUlL")
        try:
            return int(s, 0) & 0xFFFFFFFFFFFFFFFF
        except Exception:
            if d in ("TRUE", "true"):
                return 1
            if d in ("FALSE", "false"):
                return 0
    return None


def extract_inputs(trace, names):
    """names: iterable of (name, is_array). Returns {name: {idx: int}} (idx -1 for scalars)."""
    want = {n: a for n, a, _ in names}
    vals = {}
    for s in trace or []:
        if s.get("stepType") != "assignment":
            continue
        fn = s.get("sourceLocation", {}).get("function")
        lhs = s.get("lhs", "")
        base = re.split(r"[\[.]", lhs)[0]
        if base not in want:
            continue
        if fn is not None and fn != "harness":
            continue
        v = s.get("value", {})
        if lhs == base:
            if v.get("name") == "array" or "elements" in v:
                d = vals.setdefault(base, {})
                for el in v.get("elements", []):
                    iv = _val_to_int(el.get("value"))
                    if iv is not None:
                        d[int(el["index"])] = iv
            else:
                iv = _val_to_int(v)
                if iv is not None:
                    vals.setdefault(base, {})[-1] = iv
        else:
            m = re.match(r"^%s\[(\d+)[lLuU]*\]$" % re.escape(base), lhs)
            if m:
                iv = _val_to_int(v)
                if iv is not None:
                    vals.setdefault(base, {})[int(m.group(1))] = iv
    return vals


# ------------------------------------------------------------------ native replay
def native_build(q, outdir, sanitize=True):
    """sanitize: True = gcc ASan+UBSan, False = gcc -O2 (the pinned flags), "msan" = clang MemorySanitizer (uninitialised reads)"""
    tag = "msan" if sanitize == "msan" else ("san" if sanitize else "rel")
    exe = os.path.join(outdir, "replay_%s" % tag)
    units = q.native_units if q.native_units is not None else q.units
    cc = "clang-14" if sanitize == "msan" else "gcc"
    cmd = [cc, "-std=gnu11", "-w", "-DVP_NATIVE"] + q.dflags(native=True)
    cmd += ["-include", os.path.join(COMMON, "vp_native_alloc.h")]
    if sanitize == "msan":
        cmd += ["-O0", "-g", "-fsanitize=memory", "-fno-omit-frame-pointer"]
    elif sanitize:
        cmd += ["-O0", "-g", "-fsanitize=address,undefined", "-fno-sanitize-recover=undefined", "-fno-omit-frame-pointer"]
    else:
        cmd += ["-O2", "-g"]
    cmd += [os.path.join(VERIF, "harness", q.harness), os.path.join(COMMON, "vp_native_rt.c")]
    cmd += [os.path.join(SRC, u) for u in units]
    cmd += ["-lm", "-o", exe]
    rc, out, err, _, _ = run_proc(cmd, 180, mem_gb=64 if sanitize == "msan" else 8)
    if rc != 0:
        return None, err
    return exe, ""


def native_run(exe, replay_txt, timeout=60):
    env = dict(os.environ)
    env["VP_REPLAY"] = replay_txt
    env["ASAN_OPTIONS"] = "exitcode=42:detect_leaks=0:allocator_may_return_null=1:max_allocation_size_mb=4096"
    env["UBSAN_OPTIONS"] = "halt_on_error=1:exitcode=43:print_stacktrace=1"
    env["MSAN_OPTIONS"] = "exitcode=44"
    p = subprocess.Popen([exe], stdout=subprocess.PIPE, stderr=subprocess.PIPE, env=env, preexec_fn=os.setsid)
    try:
        out, err = p.communicate(timeout=timeout)
        to = False
    except subprocess.TimeoutExpired:
        try:
            os.killpg(p.pid, signal.SIGKILL)
        except Exception:
            pass
        out, err = p.communicate()
        to = True
    out = out.decode("utf-8", "replace"); err = err.decode("utf-8", "replace")
    rc = p.returncode
    if to:
        verdict = "hang"
    elif rc == 0:
        verdict = "pass"
    elif rc == 3:
        verdict = "assume_fail"
    elif rc == 1 and "VP_ASSERT_FAIL" in out:
        verdict = "assert_fail"
    elif rc in (42, 43, 44) or "AddressSanitizer" in err or "runtime error" in err or "MemorySanitizer" in err:
        verdict = "sanitizer"
    elif rc < 0:
        verdict = "signal%d" % (-rc)
    else:
        verdict = "rc%d" % rc
    return verdict, out, err


def write_replay(q, inputs, prop, path_base):
    os.makedirs(os.path.dirname(path_base), exist_ok=True)
    txt = path_base + ".inputs"
    with open(txt, "w") as f:
        for n, d in sorted(inputs.items()):
            for i, v in sorted(d.items()):
                f.write("%s %d %x\n" % (n, i, v))
    meta = {
        "query": q.name, "harness": q.harness, "units": q.units, "native_units": q.native_units, "defs": q.defs,
        "ndebug": q.ndebug, "failed_property": {"id": prop["id"], "desc": prop["desc"], "class": prop["class"]},
        "inputs": {n: {str(i): hex(v) for i, v in d.items()} for n, d in inputs.items()},
        "inputs_file": txt, "cbmc_cmd": " ".join(q.cbmc_cmd()),
    }
    with open(path_base + ".json", "w") as f:
        json.dump(meta, f, indent=1)
    return path_base + ".json"


def replay_file(path):
    meta = json.load(open(path))
    if meta.get("kind") == "audit":
        return {"audit": ("audit", "static audit finding (re-run `vcheck run <ID> --only %s`): %s" % (meta.get("query"), json.dumps(meta.get("failed"))[:1500]))}
    q = Query(meta["query"], meta["harness"], units=meta["units"], defs=meta["defs"], ndebug=meta.get("ndebug", True),
              native_units=meta.get("native_units"))
    tmp = tempfile.mkdtemp(prefix="vp-replay-")
    try:
        results = {}
        for san in (True, False):
            exe, err = native_build(q, tmp, sanitize=san)
            if not exe:
                results["san" if san else "rel"] = ("build_error", err[-2000:])
                continue
            v, out, err = native_run(exe, meta["inputs_file"])
            results["san" if san else "rel"] = (v, (out + err)[-3000:])
        return results
    finally:
        shutil.rmtree(tmp, ignore_errors=True)


# ------------------------------------------------------------------ one query
import threading
_HEAVY_CAP = float(os.environ.get("VP_HEAVY_GB", "60"))   # total address-space budget of concurrently running heavy queries
_heavy_used = 0.0
_heavy_cv = threading.Condition()


def run_query(q, replay_dir, prop_id):
    """memory-aware wrapper: queries whose cap exceeds 12 GB share a budget so that several of them never run the box out of
    memory (the kernel's OOM killer takes unrelated queries with it)"""
    global _heavy_used
    need = float(getattr(q, "mem_gb", 0) or 0)
    heavy = need > 12
    if heavy:
        need = min(need, _HEAVY_CAP)
        with _heavy_cv:
            while _heavy_used + need > _HEAVY_CAP:
                _heavy_cv.wait()
            _heavy_used += need
    try:
        return _run_query_outer(q, replay_dir, prop_id)
    finally:
        if heavy:
            with _heavy_cv:
                _heavy_used -= need
                _heavy_cv.notify_all()


def _run_query_outer(q, replay_dir, prop_id):
    """Runs the query; on failures, obtains a trace and replays natively.
    Returns a result dict."""
    if isinstance(q, PyQuery):
        t0 = time.time()
        r = {"name": q.name, "harness": q.harness, "defs": {}, "units": [], "verdict": "inconclusive", "failed": [], "n_props": 1,
             "n_ok": 0, "reach": True, "stats": {"variables": 1}, "wall_s": 0, "cmd": "(python) " + q.name, "replays": [], "note": q.note}
        try:
            r.update(q.fn())
        except Exception as e:
            r["why"] = "exception %r" % e
        r["wall_s"] = round(time.time() - t0, 2)
        if r.get("verdict") == "violated":
            # an audit has no input to replay: the replay file names the offending objects; `vcheck run <ID> --only <query>` re-derives it
            os.makedirs(replay_dir, exist_ok=True)
            path = os.path.join(replay_dir, re.sub(r"[^A-Za-z0-9_.-]", "_", "%s-%s" % (prop_id, q.name)) + ".json")
            with open(path, "w") as f:
                json.dump({"query": q.name, "kind": "audit", "failed": r.get("failed", []), "note": r.get("note", "")}, f, indent=1)
            for rep in r.get("replays", []):
                rep["replay"] = path
        return r
    t0 = time.time()
    r = {"name": q.name, "harness": q.harness, "defs": q.defs, "units": q.units, "verdict": None,
         "failed": [], "n_props": 0, "n_ok": 0, "reach": False, "stats": {}, "wall_s": 0, "cmd": None,
         "replays": [], "note": q.note}
    if q.replace_calls:
        gbdir = tempfile.mkdtemp(prefix="vp-gb-")
        try:
            return _run_query(q, replay_dir, prop_id, r, gbdir)
        finally:
            shutil.rmtree(gbdir, ignore_errors=True)
    return _run_query(q, replay_dir, prop_id, r, None)


def _run_query(q, replay_dir, prop_id, r, gbdir):
    gb = None
    pre = ""
    if gbdir is not None:
        gb, cmds, gerr = build_modular(q, gbdir)
        pre = " && ".join(" ".join(c) for c in cmds) + " && "
        if gb is None:
            r["verdict"] = "inconclusive"; r["why"] = "modular build: " + gerr
            return r
    cmd = q.cbmc_cmd(gb=gb)
    r["cmd"] = pre + " ".join(cmd)
    rc, out, err, wall, to = run_proc(cmd, q.timeout, q.mem_gb)
    r["wall_s"] = round(wall, 2)
    if to:
        r["verdict"] = "inconclusive"; r["why"] = "timeout %ds" % q.timeout
        return r
    pr = parse_cbmc(out)
    r["stats"] = pr["stats"]
    if pr["status"] == "error" or not pr["props"]:
        r["verdict"] = "inconclusive"
        r["why"] = "cbmc rc=%s %s %s" % (rc, pr.get("error", ""), ("; ".join(pr["messages"]) or err[-500:] or out[-500:]))
        return r
    props = pr["props"]
    r["n_props"] = len([p for p in props if p["class"] != "reach"])
    fails = []
    unknown = []
    for p in props:
        if p["class"] == "reach":
            if p["status"] == "FAILURE":
                r["reach"] = True
            continue
        if p["status"] == "SUCCESS":
            r["n_ok"] += 1
        elif p["class"] == "advisory":
            r.setdefault("advisories", []).append({"id": p["id"], "desc": p["desc"], "status": p["status"]})
        elif p["status"] == "FAILURE":
            fails.append(p)
        else:
            unknown.append(p)   # CBMC 6: properties after a failed UB check are reported UNKNOWN
    if not any(p["class"] == "reach" for p in props):
        r["verdict"] = "inconclusive"; r["why"] = "harness has no VP_REACH witness"
        return r
    if not fails and unknown:
        r["verdict"] = "inconclusive"
        r["why"] = "%d properties UNKNOWN without a deciding failure%s" % (len(unknown), " (after advisory: %s)" % r["advisories"][0]["desc"][:80] if r.get("advisories") else "")
        return r
    if not fails:
        if not r["reach"] and getattr(q, "empty_ok", False):
            r["verdict"] = "held"; r["empty_class"] = True
            r["why"] = "class proven empty: no input within the bounds satisfies the class assumption"
        elif not r["reach"]:
            r["verdict"] = "vacuous"; r["why"] = "reachability witness not violated (assumptions unsatisfiable?)"
        else:
            r["verdict"] = "held"
        return r
    # order: unwinding failures make everything else meaningless
    unw = [p for p in fails if p["class"] == "unwind"]
    # a counterexample to another property is a real execution prefix even when some loop bound is too small
    # (BMC counterexamples are sound); only "nothing but unwinding assertions failed" is inconclusive
    if unw and any(p["class"] in ("assert", "libassert", "mem") for p in fails):
        r["unwind_also_failed"] = [p["id"] for p in unw][:4]
        fails = [p for p in fails if p["class"] != "unwind"]
        unw = []
    if unw:
        r["verdict"] = "inconclusive"
        r["why"] = "unwinding assertion failed: %s (bound too small for this tree)" % ", ".join(p["id"] for p in unw[:4])
        r["failed"] = [{"id": p["id"], "desc": p["desc"], "class": p["class"]} for p in unw]
        r["unwind_failed"] = True
        return r
    r["failed"] = [{"id": p["id"], "desc": p["desc"], "class": p["class"],
                    "loc": "%s:%s" % (p["loc"].get("file", "?"), p["loc"].get("line", "?"))} for p in fails]
    # trace + replay for the first failing property of each class (assert first)
    order = {"assert": 0, "libassert": 1, "mem": 2, "ub": 3, "other": 4}
    fails.sort(key=lambda p: order.get(p["class"], 9))
    chosen = []
    seen_cls = set()
    for p in fails:
        if p["class"] in seen_cls:
            continue
        seen_cls.add(p["class"]); chosen.append(p)
        if len(chosen) >= 2:
            break
    names = harness_inputs(os.path.join(VERIF, "harness", q.harness))
    tmp = tempfile.mkdtemp(prefix="vp-q-")
    try:
        exe_san = exe_rel = None
        confirmed = False
        for p in chosen:
            rc2, out2, err2, wall2, to2 = run_proc(q.cbmc_cmd(extra=["--trace", "--property", p["id"]], gb=gb), q.timeout * 2, q.mem_gb)
            r["wall_s"] = round(r["wall_s"] + wall2, 2)
            rep = {"property": p["id"], "desc": p["desc"], "class": p["class"]}
            if to2:
                rep["native"] = "no-trace(timeout)"; r["replays"].append(rep); continue
            pr2 = parse_cbmc(out2)
            tr = None
            for pp in pr2["props"]:
                if pp["id"] == p["id"] and pp.get("trace"):
                    tr = pp["trace"]
            if tr is None:
                rep["native"] = "no-trace"; r["replays"].append(rep); continue
            inputs = extract_inputs(tr, names)
            safe = re.sub(r"[^A-Za-z0-9_.-]", "_", "%s-%s-%s" % (prop_id, q.name, p["id"]))[:150]
            path = write_replay(q, inputs, p, os.path.join(replay_dir, safe))
            rep["replay"] = path
            if exe_san is None:
                exe_san, berr = native_build(q, tmp, sanitize=True)
                exe_rel, berr2 = native_build(q, tmp, sanitize=False)
                if not exe_san:
                    rep["native"] = "build_error"; rep["native_out"] = berr[-1500:]
                    r["replays"].append(rep); continue
            v, o, e = native_run(exe_san, path[:-5] + ".inputs")
            rep["native"] = v; rep["native_out"] = (o + e)[-1200:]
            if exe_rel:
                v2, o2, e2 = native_run(exe_rel, path[:-5] + ".inputs")
                rep["native_release"] = v2
            if v == "pass" and rep.get("native_release") in (None, "pass"):
                # nothing trapped: the counterexample may hinge on uninitialised memory, which only MemorySanitizer observes
                exe_m, _e = native_build(q, tmp, sanitize="msan")
                if exe_m:
                    v3, o3, e3 = native_run(exe_m, path[:-5] + ".inputs")
                    rep["native_msan"] = v3
                    if v3 == "sanitizer":
                        v = "sanitizer"; rep["native"] = "sanitizer(msan: use of uninitialised value)"; rep["native_out"] = (o3 + e3)[-1200:]
            if v in ("assert_fail", "sanitizer", "hang") or v.startswith("signal") or rep.get("native_release") in ("assert_fail",) or str(rep.get("native_release", "")).startswith("signal"):
                rep["confirmed"] = True
                confirmed = True
            r["replays"].append(rep)
        if confirmed:
            r["verdict"] = "violated"
        else:
            # solver counterexample that does not reproduce natively
            only_solver = all(p["class"] in ("mem", "ub") for p in fails)
            r["verdict"] = "violated_solver_only" if only_solver else "unconfirmed"
    finally:
        shutil.rmtree(tmp, ignore_errors=True)
    return r


def list_functions(q):
    """functions present in the goto program after --drop-unused-functions (one cheap cbmc call, no solving)"""
    cmd = [c for c in q.cbmc_cmd() if c not in ("--json-ui",)] + ["--show-goto-functions"]
    rc, out, err, _, to = run_proc(cmd, 120, 8)
    fns = set()
    for line in out.splitlines():
        m = re.match(r"^([A-Za-z_][A-Za-z0-9_]*) /\* ([^ ]+) \*/$", line.strip())
        if m:
            fns.add(m.group(1))
    fns -= {"harness", "__CPROVER__start", "__CPROVER_initialize", "vp_exact", "vp_release"}
    return sorted(f for f in fns if not f.startswith("__CPROVER"))


# ------------------------------------------------------------------ known findings
def load_known():
    p = os.path.join(VERIF, "known-findings.json")
    if not os.path.exists(p):
        return {"open": [], "fixed": []}
    return json.load(open(p))


# ------------------------------------------------------------------ a whole check
def run_check(prop_id, tier, queries, meta, seed=0, only=None, verbose=True):
    """queries: list of Query.  meta: dict(level_text, bounds, outside, assumptions, functions_hint...)"""
    t0 = time.time()
    known = load_known()
    open_kf = {k["id"]: k for k in known.get("open", []) if k.get("property") == prop_id}
    replay_dir = os.path.join(VERIF, "replays")
    jobs = []
    for q in queries:
        if only and not re.search(only, q.name):
            continue
        active = [k for k in q.kf if k in open_kf]
        if active:
            main = q.clone()
            for k in active:
                main.defs["VP_KF_EXCLUDE_" + k] = "1"
            jobs.append(("main", main, None))
            for k in active:
                tw = q.clone(name=q.name + "@KF-" + k)
                tw.defs["VP_KF_ONLY_" + k] = "1"
                jobs.append(("kf", tw, k))
        else:
            jobs.append(("main", q, None))
    # heavier first
    jobs.sort(key=lambda j: -j[1].weight)
    if seed:
        import random
        rnd = random.Random(seed)
        light = [j for j in jobs]
        rnd.shuffle(light)
        jobs = sorted(light, key=lambda j: -j[1].weight)
    results = []
    fnsets = {}
    with ThreadPoolExecutor(max_workers=NCPU) as ex:
        futs = {}
        for kind, q, k in jobs:
            futs[ex.submit(run_query, q, replay_dir, prop_id)] = (kind, q, k)
        # function listing, once per (harness, units, defs that matter)
        seenfn = {}
        for kind, q, k in jobs:
            if isinstance(q, PyQuery):
                continue
            key = (q.harness, tuple(q.units))
            if key not in seenfn:
                seenfn[key] = ex.submit(list_functions, q)
        for f in as_completed(futs):
            kind, q, k = futs[f]
            try:
                r = f.result()
            except Exception as e:
                r = {"name": q.name, "verdict": "inconclusive", "why": "driver exception %r" % e, "failed": [], "n_props": 0,
                     "n_ok": 0, "stats": {}, "wall_s": 0, "replays": [], "harness": q.harness, "defs": q.defs, "cmd": ""}
            r["kind"] = kind; r["kf"] = k
            results.append(r)
            if verbose:
                print("  [%s] %-58s %-12s %6.1fs %s" % (prop_id, r["name"][:58], r["verdict"], r["wall_s"],
                                                         (r.get("why") or "")[:160]), flush=True)
        for key, f in seenfn.items():
            try:
                fnsets[key] = f.result()
            except Exception:
                fnsets[key] = []
    # ---------------------------------------------------------- aggregate
    violations = []; inconclusive = []; kf_lines = []
    for r in results:
        if r["kind"] == "main":
            if r["verdict"] in ("violated", "violated_solver_only"):
                violations.append(r)
            elif r["verdict"] in ("inconclusive", "vacuous", "unconfirmed"):
                inconclusive.append(r)
        else:
            kf = open_kf[r["kf"]]
            if r["verdict"] in ("violated", "violated_solver_only"):
                kf_lines.append((kf, r))
            elif r["verdict"] in ("inconclusive", "unconfirmed"):
                # the finding's own query did not conclude: not an alarm, but say so
                kf_lines.append((kf, r))
            # held / vacuous: finding no longer reproduces -> silently fine
    exit_code = 0
    printed_kf = set()
    for kf, r in kf_lines:
        if kf["id"] in printed_kf:
            continue
        printed_kf.add(kf["id"])
        print("KNOWN-FINDING: property=%s %s [%s; %s on query %s]" % (prop_id, kf["what"], kf["id"], r["verdict"], r["name"]))
    for r in violations:
        rp = None
        for rep in r.get("replays", []):
            if rep.get("replay"):
                rp = rep["replay"]
                if rep.get("confirmed"):
                    break
        what = "; ".join("%s [%s] @%s" % (f["desc"][:90], f["class"], f.get("loc", "")) for f in r["failed"][:3])
        print("VIOLATION property=%s replay=%s  (query %s: %s%s)" % (
            prop_id, rp or "none", r["name"], what, "" if r["verdict"] == "violated" else "; solver-only, native run did not trap"))
        exit_code = 1
    if inconclusive and exit_code == 0:
        exit_code = 2
    for r in inconclusive:
        print("INCONCLUSIVE property=%s query=%s verdict=%s %s" % (prop_id, r["name"], r["verdict"], r.get("why", "")))
        for rep in r.get("replays", []):
            print("   unconfirmed counterexample: %s native=%s replay=%s" % (rep.get("desc"), rep.get("native"), rep.get("replay")))
    wall = time.time() - t0
    # ---------------------------------------------------------- evidence
    allfns = sorted(set(sum(fnsets.values(), [])))
    main = [r for r in results if r["kind"] == "main"]
    nontriv = [r for r in main if r.get("reach") and r["stats"].get("variables", 0) > 0]
    samples = []
    for r in sorted(main, key=lambda r: r["name"])[:: max(1, len(main) // 6)][:8]:
        samples.append({"query": r["name"], "harness": r["harness"], "defs": r["defs"], "verdict": r["verdict"],
                        "properties_checked": r["n_props"], "solver_variables": r["stats"].get("variables"),
                        "clauses": r["stats"].get("clauses"), "solver_s": r["stats"].get("solver_s"), "wall_s": r["wall_s"],
                        "cmd": r["cmd"]})
    ev = {
        "property_id": prop_id, "tier": tier, "seed": int(seed), "level": "model_checking",
        "coverage": {
            "evaluations": len(main),
            "distinct_nontrivial": len({r["name"] for r in nontriv}),
            "rule": "one evaluation = one CBMC query (harness x parameter point) over symbolic inputs; counted non-trivial when "
                    "its reachability witness VP_REACH was violated (assumptions satisfiable, end of harness reached) and the "
                    "SAT instance had free variables; names are distinct parameter points",
            "samples": samples,
            "obligations": sum(r["n_props"] for r in main),
            "discharged": sum(r["n_ok"] for r in main),
            "traces_validated_against_impl": sum(1 for r in results for rep in r.get("replays", []) if rep.get("native") not in (None, "no-trace", "build_error")),
            "counterexamples_confirmed": sum(1 for r in results for rep in r.get("replays", []) if rep.get("confirmed")),
            "known_finding_queries": len([r for r in results if r["kind"] == "kf"]),
            "functions_encoded": allfns,
            "bounds": meta.get("bounds", ""),
            "outside_bounds": meta.get("outside", ""),
            "solver": "cbmc 6.11.0 built-in SAT (MiniSat2) via bit-blasting; --unwinding-assertions on every query",
            "solver_seconds_total": round(sum(r["stats"].get("solver_s", 0) or 0 for r in results), 2),
            "cpu_wall_seconds_sum": round(sum(r["wall_s"] for r in results), 2),
            "max_sat_variables": max([r["stats"].get("variables", 0) or 0 for r in results] + [0]),
            "verdicts": {v: len([r for r in results if r["verdict"] == v]) for v in sorted({r["verdict"] for r in results})},
            "inconclusive": [{"query": r["name"], "why": r.get("why")} for r in inconclusive],
            "explanation": meta.get("explanation", ""),
            "exhaustive": False,
        },
        "assumptions": meta.get("assumptions", []),
        "wall_s": round(wall, 2),
        "violations": len(violations),
    }
    ev["coverage"]["per_query"] = [{"query": r["name"], "kind": r["kind"], "verdict": r["verdict"], "props": r["n_props"],
                                    "ok": r["n_ok"], "wall_s": r["wall_s"], "vars": r["stats"].get("variables"),
                                    "failed": r.get("failed", [])[:4]} for r in sorted(results, key=lambda r: r["name"])]
    os.makedirs(os.path.join(VERIF, "evidence"), exist_ok=True)
    evp = os.path.join(VERIF, "evidence", prop_id + ".json")
    if not only:
        with open(evp, "w") as f:
            json.dump(ev, f, indent=1)
    print("%s tier=%s queries=%d held=%d violations=%d inconclusive=%d known-findings=%d wall=%.1fs -> exit %d" % (
        prop_id, tier, len(results), len([r for r in results if r["verdict"] == "held"]), len(violations), len(inconclusive),
        len(printed_kf), wall, exit_code))
    return exit_code
